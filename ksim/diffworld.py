"""Diffusion world: real kawin SinglePhaseModel / HomogenizationModel driven by a JSON config, with a
synthetic (or real) diffusivity / mobility provider, a flux tap, an iterator wrapper and a
temperature tap.  Serves C04 (ledger), C09 (cache in situ), C11 (element order), C13 (temperature
handed to the flux computation), C20 (save / crash / load).
"""
import math, copy, os, tempfile, shutil
import numpy as np
from ksim import core
from ksim import solverworld as sw
from kawin.diffusion import SinglePhaseModel, HomogenizationModel
from kawin.diffusion.DiffusionParameters import BoundaryConditions, TemperatureParameters, MobilityData
import importlib
HP = importlib.import_module('kawin.diffusion.HomogenizationParameters')    # (the package re-exports a class of the same name)
from kawin.solver import SolverType

R = 8.314
_REAL = {}
_ORIG_SINGLE_MOBILITY = HP._computeSingleMobility


# ----------------------------------------------------------------------------- providers
class SynthDiff:
    """Synthetic interdiffusivity provider for SinglePhaseModel (positive, composition and temperature dependent)."""

    def __init__(self, nel, D0=1e-13, Q=50000.0, a=2.0, off=0.15, perm=None):
        self.nel = nel              # number of independent elements
        self.numElements = nel + 1
        self.D0, self.Q, self.a, self.off = D0, Q, a, off
        self.perm = perm            # permutation of the independent elements relative to the canonical order
        self.calls = 0
        self.log_T = []

    def clearCache(self):
        pass

    def getInterdiffusivity(self, x, T, removeCache=True, phase=None):
        self.calls += 1
        x = np.atleast_1d(np.asarray(x, dtype=float))
        T = float(np.squeeze(T))
        self.log_T.append(T)
        base = self.D0 * math.exp(-self.Q / R * (1.0 / T - 1.0 / 1000.0))
        if self.nel == 1:
            return base * (1.0 + self.a * float(x[0]))
        xc = x if self.perm is None else x[np.argsort(self.perm)]     # canonical order
        n = self.nel
        D = np.zeros((n, n))
        for i in range(n):
            for j in range(n):
                if i == j:
                    D[i, j] = base * (1.0 + 0.5 * i) * (1.0 + self.a * xc[i])
                else:
                    D[i, j] = base * self.off * (1 + i - 0.5 * j) * (xc[i] + 0.1)
        if self.perm is not None:
            P = np.asarray(self.perm)
            D = D[np.ix_(P, P)]
        return D


class SynthHomTherm:
    """Fake thermodynamics object for HomogenizationModel; the mobility data come from the synthetic
    provider installed in place of kawin's module-level _computeSingleMobility."""

    def __init__(self, all_elements, phases, spec):
        self.elements = list(all_elements) + ['VA']
        self.numElements = len(all_elements)
        self.phases = list(phases)
        self.spec = spec
        self.calls = 0

    def clearCache(self):
        pass


def synth_single_mobility(therm, x, T, unsortIndices, hashTable=None):
    """Same caching pattern as kawin's provider; ideal chemical potentials; 1-3 phases with
    composition-dependent fractions; optionally undefined (-1) mobilities."""
    md = None
    if hashTable is not None:
        md = hashTable.retrieveFromHashTable(x, T)
    if md is None:
        therm.calls += 1
        sp = therm.spec
        x = np.atleast_1d(np.asarray(x, dtype=float))
        xfull = np.concatenate(([1.0 - float(np.sum(x))], x))
        T = float(T)
        ne = len(xfull)
        nph = len(therm.phases)
        mu = R * T * np.log(np.maximum(xfull, 1e-300)) + np.asarray(sp['mu0'][:ne], dtype=float)
        # phase fractions: smooth function of the first solute
        if nph == 1:
            f = np.array([1.0])
        else:
            s = 1.0 / (1.0 + math.exp(-(x[0] - sp['xmid']) / sp['xw']))
            f = np.array([1.0 - s, s] + [0.0] * (nph - 2))
            if nph > 2:
                f[2] = 0.1 * s * (1 - s)
                f[:2] *= (1 - f[2])
        keep = f > 1e-6 if sp.get('drop_minor', True) else np.ones(nph, dtype=bool)
        phases = np.array([p for p, k in zip(therm.phases, keep) if k])
        f = f[keep]
        f = f / np.sum(f)
        mob = np.zeros((len(phases), ne))
        for r, p in enumerate(phases):
            pi = therm.phases.index(p)
            if pi in sp.get('undefined', []):
                mob[r, :] = -1
            else:
                for e in range(ne):
                    mob[r, e] = sp['M0'] * (10 ** (sp['spread'] * pi)) * (1 + 0.3 * e) * math.exp(-sp['Q'] / R * (1 / T - 1 / 1000.0)) * max(xfull[e], 1e-12)
        order = list(range(len(phases)))
        if sp.get('reverse_stable_order') and len(order) > 1:
            order = order[::-1]
        md = MobilityData(mobility=mob[order], phases=phases[order], phase_fractions=f[order], chemical_potentials=mu)
        if hashTable is not None:
            hashTable.addToHashTable(x, T, md)
    return md


def real_therm(kind):
    if kind in _REAL:
        return _REAL[kind]
    from kawin.thermo import GeneralThermodynamics
    from kawin.tests import datasets as ds
    if kind == 'real_nicral_fcc':
        t = GeneralThermodynamics(ds.NICRAL_TDB, ['NI', 'CR', 'AL'], ['FCC_A1'])
    elif kind == 'real_nicral_fcc_perm':
        t = GeneralThermodynamics(ds.NICRAL_TDB, ['NI', 'AL', 'CR'], ['FCC_A1'])
    elif kind == 'real_fecrni':
        t = GeneralThermodynamics(ds.FECRNI_DB, ['FE', 'CR', 'NI'], ['FCC_A1', 'BCC_A2'])
    elif kind == 'real_fecrni_perm':
        t = GeneralThermodynamics(ds.FECRNI_DB, ['FE', 'NI', 'CR'], ['FCC_A1', 'BCC_A2'])
    else:
        raise ValueError(kind)
    _REAL[kind] = t
    return t


def preload(kinds):
    for k in sorted(set(kinds)):
        if k.startswith('real_'):
            real_therm(k)


# ----------------------------------------------------------------------------- temperature
def temp_args(spec):
    if spec['kind'] == 'const':
        return (spec['T'],)
    if spec['kind'] == 'array':
        return (list(spec['times']), list(spec['temps']))
    g = spec.get('grad', 0.0)
    times, temps = list(spec['times']), list(spec['temps'])

    def f(z, t):
        return np.interp(t / 3600, times, temps, temps[0], temps[-1]) * np.ones(len(z)) + g * np.asarray(z)
    return (f,)


def ref_temp(spec, z, t):
    if spec['kind'] == 'const':
        return np.array([float(spec['T'])] * len(z))
    th = t / 3600
    times, temps = spec['times'], spec['temps']
    if th <= times[0]:
        base = temps[0]
    elif th >= times[-1]:
        base = temps[-1]
    else:
        base = temps[-1]
        for i in range(len(times) - 1):
            if times[i] <= th <= times[i + 1]:
                w = (th - times[i]) / (times[i + 1] - times[i]) if times[i + 1] != times[i] else 1.0
                base = temps[i] + w * (temps[i + 1] - temps[i])
                break
    g = spec.get('grad', 0.0) if spec['kind'] == 'func' else 0.0
    return np.array([base + g * zi for zi in z], dtype=float)


class TempTap:
    def __init__(self, inner):
        self.inner = inner
        self.log = []

    def __call__(self, z, t):
        out = self.inner(z, t)
        self.log.append((float(t), np.array(out, dtype=float, copy=True)))
        return out

    def __getattr__(self, name):
        return getattr(self.inner, name)


# ----------------------------------------------------------------------------- model building
PROFILE_KINDS = ['linear', 'step', 'single', 'bounded', 'function', 'profile']


def apply_profile(m, el, p, zlim):
    L = zlim[1] - zlim[0]
    k = p['kind']
    if k == 'linear':
        m.setCompositionLinear(p['a'], p['b'], el)
    elif k == 'step':
        m.setCompositionStep(p['a'], p['b'], zlim[0] + p['pos'] * L, el)
    elif k == 'single':
        m.setCompositionLinear(p['a'], p['a'], el)
        m.compositionProfile.addSingleCompositionStep(el, p['b'], zlim[0] + p['pos'] * L)
    elif k == 'bounded':
        m.setCompositionLinear(p['a'], p['a'], el)
        m.compositionProfile.addBoundedCompositionStep(el, p['b'], zlim[0] + 0.3 * L, zlim[0] + (0.3 + 0.4 * p['pos']) * L)
    elif k == 'function':
        a, b = p['a'], p['b']
        m.setCompositionFunction(lambda z, a=a, b=b: a + (b - a) * 0.5 * (1 + np.tanh((z - zlim[0] - 0.5 * L) / (0.15 * L))), el)
    elif k == 'profile':
        m.setCompositionProfile([zlim[0], zlim[0] + 0.4 * L, zlim[1]], [p['a'], p['b'], 0.5 * (p['a'] + p['b'])], el)


def build(cfg, provider_perm=None):
    """-> (model, info) ; cfg keys: model, provider, all_elements, phases, N, L, profiles{el}, bcs{el}, T, record, hom{...}, cache, hash_s"""
    els = list(cfg['all_elements'])
    zlim = (0.0, cfg['L'])
    kw = {}
    if cfg.get('T_via', 'setter') == 'ctor':
        kw['temperatureParameters'] = TemperatureParameters(*temp_args(cfg['T']))
    record = cfg.get('record', True)
    info = {}
    if cfg['model'] == 'single':
        if cfg['provider'] == 'synth':
            therm = SynthDiff(len(els) - 1, perm=provider_perm, **cfg.get('synth', {}))
        else:
            therm = real_therm(cfg['provider'])
        m = SinglePhaseModel(zlim, cfg['N'], els, cfg['phases'], thermodynamics=therm, record=record, **kw)
    else:
        if cfg['provider'] == 'synth':
            therm = SynthHomTherm(els, cfg['phases'], cfg['hom_spec'])
            HP._computeSingleMobility = synth_single_mobility
        else:
            therm = real_therm(cfg['provider'])
            HP._computeSingleMobility = _ORIG_SINGLE_MOBILITY
        m = HomogenizationModel(zlim, cfg['N'], els, cfg['phases'], thermodynamics=therm, record=record, **kw)
        hp = cfg.get('hom', {})
        m.setMobilityFunction(hp.get('function', 'wiener upper'))
        if 'labyrinth' in hp:
            m.setLabyrinthFactor(hp['labyrinth'])
        if 'post' in hp:
            m.setMobilityPostProcessFunction(hp['post'], hp.get('post_args'))
        if 'eps' in hp:
            m.setIdealEps(hp['eps'])
        if 'maxCompositionChange' in hp:
            m.constraints.maxCompositionChange = hp['maxCompositionChange']
    if 'T_via' not in cfg or cfg['T_via'] == 'setter':
        a = temp_args(cfg['T'])
        if cfg['T']['kind'] == 'const':
            m.setTemperature(a[0])
        elif cfg['T']['kind'] == 'array':
            m.setTemperatureArray(*a)
        else:
            m.setTemperatureFunction(a[0])
    for el in els[1:]:
        apply_profile(m, el, cfg['profiles'][el], zlim)
        bc = cfg['bcs'].get(el)
        if bc:
            lt = BoundaryConditions.COMPOSITION_BC if bc['L'][0] == 'comp' else BoundaryConditions.FLUX_BC
            rt = BoundaryConditions.COMPOSITION_BC if bc['R'][0] == 'comp' else BoundaryConditions.FLUX_BC
            m.setBC(lt, bc['L'][1], rt, bc['R'][1], el)
    if 'minComposition' in cfg:
        m.constraints.minComposition = cfg['minComposition']
    if 'vonNeumann' in cfg:
        m.constraints.vonNeumannThreshold = cfg['vonNeumann']
    if cfg.get('cache') is False:
        m.useCache(False)
    if 'hash_s' in cfg:
        m.setHashSensitivity(cfg['hash_s'])
    info['therm'] = therm
    return m, info


class FluxTap:
    def __init__(self, m):
        self.calls = []
        orig = m._getFluxes

        def wrapped(t, x_curr):
            out = orig(t, x_curr)
            self.calls.append((float(t), np.array(out, dtype=float, copy=True)))
            return out
        m._getFluxes = wrapped


class PostTap:
    """Captures the pre-clip state handed to postProcess and the state before the step."""

    def __init__(self, m):
        self.m = m
        self.steps = []
        orig = m.postProcess

        def wrapped(time, x):
            x_old = np.array(m.x, dtype=float, copy=True)
            pre = np.array(x[0], dtype=float, copy=True)
            out = orig(time, x)
            self.steps.append((float(time), x_old, pre, np.array(m.x, dtype=float, copy=True)))
            return out
        m.postProcess = wrapped


class StepCap(Exception):
    pass


class CapObserver:
    def __init__(self, cap):
        self.cap, self.n = cap, 0

    def updateCoupledModel(self, model):
        self.n += 1
        if self.n >= self.cap:
            raise StepCap()


WEIGHTS = {'euler': [1.0], 'rk4': [1 / 6, 2 / 6, 2 / 6, 1 / 6]}


# ----------------------------------------------------------------------------- generation
def gen_bc(rng, scale_flux):
    r = rng.random()
    if r < 0.45:
        return ['flux', 0.0]
    if r < 0.75:
        return ['flux', rng.choice([-1, 1]) * scale_flux * rng.choice([0.1, 1.0, 3.0])]
    # (0 = perfect sink, stored as the minimum composition)
    return ['comp', rng.choice([round(rng.uniform(0.02, 0.3), 4), round(rng.uniform(0.02, 0.3), 4), 0.0])]


def gen_config(rng, model=None, real_ok=True):
    model = model or rng.choice(['single', 'single', 'hom'])
    real = real_ok and rng.random() < 0.06
    if model == 'single':
        if real:
            els, phases, provider = ['NI', 'CR', 'AL'], ['FCC_A1'], 'real_nicral_fcc'
        else:
            nel = rng.choice([1, 2, 2, 3])
            els = ['A', 'B', 'C', 'D'][:nel + 1]
            phases, provider = ['ALPHA'], 'synth'
    else:
        if real:
            els, phases, provider = ['FE', 'CR', 'NI'], ['FCC_A1', 'BCC_A2'], 'real_fecrni'
        else:
            nel = rng.choice([1, 2, 2])
            els = ['A', 'B', 'C'][:nel + 1]
            phases = ['P1', 'P2', 'P3'][:rng.choice([1, 2, 2, 3])]
            provider = 'synth'
    N = rng.randint(5, 12) if real else rng.randint(5, 60)
    L = 10 ** rng.uniform(-5, -3)
    nind = len(els) - 1
    profiles, bcs = {}, {}
    T0 = rng.choice([1073.0, 1173.0, 1273.0]) if real else rng.choice([900.0, 1000.0, 1100.0])
    hi = 0.7 / nind
    for el in els[1:]:
        a, b = round(rng.uniform(0.03, hi), 4), round(rng.uniform(0.03, hi), 4)
        if real:
            a, b = round(rng.uniform(0.05, 0.14), 4), round(rng.uniform(0.05, 0.14), 4)
            if provider == 'real_fecrni':
                a, b = (round(rng.uniform(0.1, 0.3), 4), round(rng.uniform(0.1, 0.3), 4)) if el == 'CR' else (round(rng.uniform(0.04, 0.15), 4), round(rng.uniform(0.04, 0.15), 4))
        if a == b:
            b = round(a * 1.5, 4)
        profiles[el] = {'kind': rng.choice(PROFILE_KINDS), 'a': a, 'b': b, 'pos': round(rng.uniform(0.2, 0.8), 3)}
    cfg = {'model': model, 'provider': provider, 'all_elements': els, 'phases': phases, 'N': N, 'L': L, 'profiles': profiles, 'bcs': bcs,
           'T': {'kind': 'const', 'T': T0}, 'T_via': rng.choice(['setter', 'ctor']), 'record': rng.random() < 0.8}
    if model == 'single' and provider == 'synth':
        cfg['synth'] = {'D0': 10 ** rng.uniform(-15, -11), 'Q': rng.choice([50000.0, 150000.0]), 'a': rng.choice([0.0, 2.0, 5.0]), 'off': rng.choice([0.0, 0.1, 0.2])}
        Dsc = cfg['synth']['D0']
    elif model == 'hom' and provider == 'synth':
        cfg['hom_spec'] = {'M0': 10 ** rng.uniform(-20, -16), 'Q': 100000.0, 'spread': rng.choice([0.0, 1.0, 2.0, -1.5]), 'xmid': round(rng.uniform(0.1, 0.3), 3), 'xw': rng.choice([0.02, 0.05, 0.2]),
                           'mu0': [0.0, 500.0, -800.0, 300.0], 'undefined': ([len(phases) - 1] if len(phases) > 1 and rng.random() < 0.3 else []),
                           'reverse_stable_order': rng.random() < 0.3, 'drop_minor': rng.random() < 0.8}
        Dsc = cfg['hom_spec']['M0'] * R * T0
    else:
        Dsc = 1e-15
    if model == 'hom':
        cfg['hom'] = {'function': rng.choice(['wiener upper', 'wiener lower', 'hashin upper', 'hashin lower', 'lab']), 'eps': rng.choice([0.05, 0.0, 0.2])}
        if cfg['hom']['function'] == 'lab':
            cfg['hom']['labyrinth'] = rng.choice([1, 1.5, 2])
        if provider == 'synth' and cfg['hom_spec']['undefined']:
            # bounds (and finiteness) are not claimed for sets with undefined mobilities under the Hashin-Shtrikman rules
            if 'hashin' in cfg['hom']['function']:
                cfg['hom']['function'] = rng.choice(['wiener upper', 'lab'])
            cfg['hom']['post'] = rng.choice(['majority', 'predefined', 'exclude'])
            if cfg['hom']['post'] == 'predefined':
                cfg['hom']['post_args'] = phases[0]
            elif cfg['hom']['post'] == 'exclude':
                cfg['hom']['post_args'] = [phases[-1]]
    # boundary conditions (about half of the runs keep the default closed system)
    if rng.random() < 0.55:
        fl = Dsc * 0.1 / L
        for el in els[1:]:
            if rng.random() < 0.7:
                bcs[el] = {'L': gen_bc(rng, fl), 'R': gen_bc(rng, fl)}
    # temperature field
    r = rng.random()
    if r < 0.3:
        cfg['T'] = {'kind': rng.choice(['array', 'func']), 'times': [0.0, 1.0], 'temps': [T0, T0 + rng.choice([-50, 30, 80])], 'time_scale': True}
        if cfg['T']['kind'] == 'func':
            cfg['T']['grad'] = rng.choice([0.0, 20.0, -40.0]) / L
    if rng.random() < 0.1:
        cfg['vonNeumann'] = rng.choice([0.2, 0.45])
    if rng.random() < 0.25:
        cfg['cache'] = False
    elif rng.random() < 0.3:
        cfg['hash_s'] = rng.choice([2, 3, 5, 6])
    return cfg


def gen_ops(rng, real=False):
    ops = []
    for _ in range(rng.choice([1, 2, 2, 3, 4])):
        ops.append({'op': 'solve', 'k': (rng.choice([3, 6, 10]) if real else rng.choice([5, 20, 60, 150])), 'it': rng.choice(['euler', 'rk4'])})
        if not real and rng.random() < 0.2:
            # a lower step limit just below the stability step: the last step of the call is then usually shorter than the lower limit
            ops[-1]['minf'] = rng.choice([0.9, 0.6]) / ops[-1]['k']
    return ops


def resolve_schedule(cfg, total_s):
    """Temperature break points are given relative to the run duration (resolved at execution from dt0)."""
    T = cfg['T']
    if T.get('time_scale'):
        T = dict(T)
        T['times'] = [t * total_s / 3600 for t in T['times']]
        T.pop('time_scale')
        cfg = dict(cfg)
        cfg['T'] = T
    return cfg


def pilot_dt(cfg):
    """dt0 of the model's own stability rule at the initial state (deterministic in cfg)."""
    c = copy.deepcopy(cfg)
    if c['T'].get('time_scale'):
        c['T'] = {'kind': 'const', 'T': c['T']['temps'][0]}
    try:
        m, _ = build(c)
        m.setup()
        with np.errstate(all='ignore'):
            _, dt = m.getFluxes()
        dt = float(dt)
    except Exception as e:  # noqa  (e.g. no flux anywhere in the initial state: the model's own step rule is undefined)
        raise core.Inconclusive(f'no stability step from the initial state ({type(e).__name__})')
    if not (math.isfinite(dt) and dt > 0):
        raise core.Inconclusive('non-finite stability step from the initial state (undefined mobilities under this averaging rule)')
    return dt


# ----------------------------------------------------------------------------- C11: paired runs with permuted element lists
def execute_permuted_pair(rec):
    """Two SinglePhaseModel runs built from one record that differ only in the order of the solute elements
    (profiles, boundary conditions and the diffusivity provider are keyed by element name): same time grid, permuted
    profiles at every step, judged with the local-jump rule of C11."""
    F = core.Failures()
    cnt = {'compared_steps': 0, 'steps': 0}
    cfg0 = rec['cfg']
    els = list(cfg0['all_elements'])
    perm = list(rec['perm'])                       # permutation of the solutes (indices into els[1:])
    dt0 = pilot_dt(cfg0)
    total = sum(o['k'] for o in rec['ops']) * dt0
    runs = []
    for variant in ('base', 'perm'):
        cfg = resolve_schedule(copy.deepcopy(cfg0), total)
        pp = None
        if variant == 'perm':
            cfg['all_elements'] = [els[0]] + [els[1:][i] for i in perm]
            pp = perm
        if cfg['provider'] == 'synth':
            m, info = build(cfg, provider_perm=pp)
        elif cfg0['provider'] == 'real_fecrni':
            cfg['provider'] = 'real_fecrni' if variant == 'base' else 'real_fecrni_perm'
            real_therm(cfg['provider']).clearCache()
            m, info = build(cfg)
        else:
            cfg['provider'] = 'real_nicral_fcc' if variant == 'base' else 'real_nicral_fcc_perm'
            m, info = build(cfg)
        m.addCouplingModel(CapObserver(250))
        for op in rec['ops']:
            try:
                m.solve(op['k'] * dt0, solverType=SolverType.EXPLICITEULER if op['it'] == 'euler' else SolverType.RK4)
            except StepCap:
                break
            except Exception as e:  # noqa
                raise core.Inconclusive('solve raised ' + type(e).__name__)
        runs.append(m)
    a, b = runs
    ta, tb = np.asarray(a._recordedTime, dtype=float), np.asarray(b._recordedTime, dtype=float)
    cnt['steps'] = len(ta) - 1
    if len(ta) != len(tb):
        F.add('C11.element_order_time_grid', f'element order {els[1:]} took {len(ta) - 1} steps, order {[els[1:][i] for i in perm]} took {len(tb) - 1}', what='diffusion')
    n = min(len(ta), len(tb))
    prev = 0.0
    for k in range(n):
        xa = np.asarray(a._recordedX[k], dtype=float)
        xb = np.asarray(b._recordedX[k], dtype=float)
        # row j of the permuted run is solute perm[j] of the base run
        xb_as_base = np.zeros_like(xa)
        for j, i in enumerate(perm):
            xb_as_base[i] = xb[j]
        s = np.maximum(np.abs(xa), np.abs(xb_as_base))
        d = float(np.max(np.where(s > 0, np.abs(xa - xb_as_base) / np.maximum(s, 1e-300), 0.0)))
        dt_ = abs(ta[k] - tb[k]) / max(abs(ta[k]), 1e-300) if ta[k] != tb[k] else 0.0
        d = max(d, dt_)
        cnt['compared_steps'] += 1
        if d > 1e-9 and prev < 1e-12:
            F.add('C11.element_order_jump', f'orders {els[1:]} vs {[els[1:][i] for i in perm]}: discrepancy jumps from {prev:.2e} to {d:.2e} at recorded step {k} (t={ta[k]!r} vs {tb[k]!r})', what='diffusion')
            break
        if d > 1e-6:
            F.add('C11.element_order_drift', f'orders {els[1:]} vs {[els[1:][i] for i in perm]}: discrepancy {d:.2e} at recorded step {k}', what='diffusion')
            break
        prev = d
    sig = f"elements_diffusion:{cfg0['provider']}:{len(els)}:" + ','.join(sorted(set(o['it'] for o in rec['ops'])))
    return core.result(F, sig=sig, nontrivial=cnt['compared_steps'] >= 10, counters=cnt, digest='')


def shrink_candidates(rec):
    from ksim.props import c04
    for r in c04.shrink_candidates(rec):
        yield r
