"""Small scalar reference models written from the documented behaviour (docstrings, cited papers,
property text), not from the vectorised code."""
import math

from kawin.Constants import AVOGADROS_NUMBER as AVO   # the model's own unit-conversion constant (6.022e23) is configuration, not mechanism
KB = 1.380649e-23
RGAS = 8.314


# ----------------------------------------------------------------------------- volumes
def vm_from_spec(spec):
    """[value, 'VM'|'VA'|'a', atomsPerCell] -> (Vm, Va, a)"""
    val, kind, atoms = spec
    if kind == 'VM':
        Vm = val
        Va = atoms * Vm / AVO
        a = Va ** (1.0 / 3.0)
    elif kind == 'VA':
        Va = val
        Vm = Va * AVO / atoms
        a = Va ** (1.0 / 3.0)
    else:
        a = val
        Va = a ** 3
        Vm = Va * AVO / atoms
    return Vm, Va, a


# ----------------------------------------------------------------------------- Clemm-Fisher factors
SITE_KMAX = {'grain boundaries': 1.0, 'grain edges': math.sqrt(3) / 2, 'grain corners': math.sqrt(2.0 / 3.0)}


def cf_factors(site, k):
    """(gbRemoval a, areaFactor b, volumeFactor c) for a nucleus on `site` with k = gamma_gb / (2 gamma)."""
    site = site.lower().replace('_', ' ')
    if site in ('bulk', 'dislocations'):
        return 0.0, 4 * math.pi, 4 * math.pi / 3
    if site == 'grain boundaries':
        return math.pi * (1 - k * k), 4 * math.pi * (1 - k), (2 * math.pi / 3) * (2 - 3 * k + k ** 3)
    if site == 'grain edges':
        al = math.asin(1 / (2 * math.sqrt(1 - k * k)))
        be = math.acos(k / math.sqrt(3 * (1 - k * k)))
        a = 3 * be * (1 - k * k) - k * math.sqrt(3 - 4 * k * k)
        b = 12 * (math.pi / 2 - al - k * be)
        c = 2 * (math.pi - 2 * al + (k * k / 3) * math.sqrt(3 - 4 * k * k) - be * k * (3 - k * k))
        return a, b, c
    if site == 'grain corners':
        K = (4.0 / 3.0) * math.sqrt(1.5 - 2 * k * k) - 2 * k / 3
        phi = math.asin(K / (2 * math.sqrt(1 - k * k)))
        de = math.acos((math.sqrt(2) - k * math.sqrt(3 - K * K)) / (K * math.sqrt(1 - k * k)))
        root = math.sqrt(1 - k * k - K * K / 4) - K * K / math.sqrt(8)
        a = 3 * (2 * phi * (1 - k * k) - K * root)
        b = 24 * (math.pi / 3 - k * phi - de)
        c = 2 * (4 * (math.pi / 3 - de) + k * K * root - 2 * k * phi * (3 - k * k))
        return a, b, c
    raise ValueError(site)


def volume_factor(site, gamma, gbEnergy):
    site_l = site.lower().replace('_', ' ')
    if site_l in ('bulk', 'dislocations'):
        return 4 * math.pi / 3
    return cf_factors(site_l, gbEnergy / (2 * gamma))[2]


# ----------------------------------------------------------------------------- moments
def moments(N, centres):
    """zeroth, first, second, third moment by scalar loops"""
    m0 = m1 = m2 = m3 = 0.0
    for n, r in zip(N, centres):
        m0 += n
        m1 += n * r
        m2 += n * r * r
        m3 += n * r * r * r
    return m0, m1, m2, m3


# ----------------------------------------------------------------------------- stopping conditions
class RefStop:
    """Latched conditions walked over a recorded history (series: list of values per step, times)."""

    def __init__(self, conds):
        # conds: list of dict(series=callable(n)->value, greater=bool, value=float, mode='or'|'and')
        self.conds = conds
        self.latched = [False] * len(conds)
        self.time = [-1.0] * len(conds)

    def step(self, n, times):
        for i, c in enumerate(self.conds):
            if self.latched[i]:
                continue
            v = c['series'](n)
            ok = (v > c['value']) if c['greater'] else (v < c['value'])
            if ok:
                self.latched[i] = True
                if n > 0:
                    pv = c['series'](n - 1)
                    if v == pv:
                        self.time[i] = times[n - 1]
                    else:
                        tt = (times[n] - times[n - 1]) * (c['value'] - pv) / (v - pv) + times[n - 1]
                        self.time[i] = min(max(tt, times[n - 1]), times[n])
                else:
                    self.time[i] = times[n]
        ors = [self.latched[i] for i, c in enumerate(self.conds) if c['mode'] == 'or']
        ands = [self.latched[i] for i, c in enumerate(self.conds) if c['mode'] == 'and']
        return any(ors) or (len(ands) > 0 and all(ands))


# ----------------------------------------------------------------------------- homogenization bounds
def wiener_upper(M, f):
    return sum(fi * mi for fi, mi in zip(f, M))


def wiener_lower(M, f):
    return 1.0 / sum(fi / mi for fi, mi in zip(f, M))
