"""Solver world: scripted probe models plugged into kawin's real DESolver / iterators / Coupler.

The probe model is the 'misbehaving plug-in': its getDt replays a scripted (possibly
adversarial) proposal list and its postProcess may request a stop.  Every callback checks the
nested structure of the state it is handed against the template the model supplied, and the
postProcess callback records the accepted time (the solver's clock as the model sees it).
"""
import math
import numpy as np
from kawin.GenericModel import GenericModel, Coupler
from kawin.solver import SolverType
from kawin.solver.Iterators import ExplicitEulerIterator, RK4Iterator


def parse_float(tok):
    return float(tok)


def enc_float(v):
    if isinstance(v, float) and (math.isnan(v) or math.isinf(v)):
        return repr(v)
    return v


def build_state(template, base):
    """template: list of entries {'k': 'py'|'np'|'arr'|'nd', 'shape': [...]}; values are unique tags."""
    X = []
    c = 0
    for ent in template:
        if ent['k'] == 'py':
            X.append(float(base + 0.001 * (c + 1))); c += 1
        elif ent['k'] == 'np':
            X.append(np.float64(base + 0.001 * (c + 1))); c += 1
        else:
            n = int(np.prod(ent['shape']))
            X.append((base + 0.001 * (np.arange(c, c + n) + 1)).reshape(ent['shape']).astype(float)); c += n
    return X


def flat_values(X):
    return np.concatenate([np.ravel(np.asarray(x, dtype=float)) for x in X])


def structure_of(X):
    if not isinstance(X, (list, tuple)):
        return ('notlist', type(X).__name__)
    out = []
    for x in X:
        a = np.asarray(x)
        out.append((a.shape, a.dtype.kind))
    return tuple(out)


class ProbeModel(GenericModel):
    """State evolves with constant, element-specific rates: x_i(t) = x_i(t_first) + r_i (t - t_first)
    up to rounding for both iterators, so a value handed to the wrong slot / wrong model is
    attributable."""

    def __init__(self, spec, tag):
        super().__init__()
        self.spec = spec
        self.tag = tag
        self.template = spec['template']
        self.custom = spec.get('custom', False)        # own flatten/unflatten (arbitrary rank)
        self.X = build_state(self.template, base=10.0 * (tag + 1))
        self.ref_struct = structure_of(self.X)
        n = len(flat_values(self.X))
        self.rates = spec['rate'] * (1.0 + 0.1 * np.arange(n)) * (1 if tag % 2 == 0 else -1)
        self.x_first = flat_values(self.X).copy()
        self.t_first = float(spec.get('t0', 0.0))
        # own_clock: the model was advanced on its own before it was coupled, so ITS clock differs from the clock of the Coupler that now drives it
        self.time = [float(spec.get('own_clock', self.t_first))]
        self.dts = [parse_float(t) for t in spec['dts']]
        self.k_dt = 0
        self.stop_at = spec.get('stop_at')     # request stop at this accepted step (1-based, global)
        self.accepted = 0
        self.events = []        # (kind, ...)
        self.problems = []      # structural / value problems seen in callbacks
        self.setup_calls = 0
        self.pre_calls = 0
        self.deriv_times = []   # times at which getdXdt was invoked

    # --- helpers
    def _check(self, where, X):
        s = structure_of(X)
        if len(s) != len(self.ref_struct):
            self.problems.append((where, f'list length {len(s)} != template {len(self.ref_struct)}'))
            return False
        ok = True
        for i, (a, b) in enumerate(zip(s, self.ref_struct)):
            if a[0] != b[0]:
                self.problems.append((where, f'entry {i} shape {a[0]} != template {b[0]}')); ok = False
            elif a[1] != 'f':
                self.problems.append((where, f'entry {i} dtype kind {a[1]} is not float')); ok = False
        return ok

    def _rates_struct(self):
        out = []
        c = 0
        for ent, x in zip(self.template, self.X):
            a = np.asarray(x)
            n = int(np.prod(a.shape)) if a.shape != () else 1
            r = self.rates[c:c + n]
            c += n
            if a.shape == ():
                out.append(float(r[0]) if ent['k'] == 'py' else np.float64(r[0]))
            else:
                out.append(r.reshape(a.shape).copy())
        return out

    # --- GenericModel interface
    def setup(self):
        self.setup_calls += 1

    def getCurrentX(self):
        return self.time[-1], self.X

    def getdXdt(self, t, x):
        self.deriv_times.append(t)
        self._check('getdXdt', x)
        return self._rates_struct()

    def getDt(self, dXdt):
        self._check('getDt', dXdt)
        dt = self.dts[self.k_dt % len(self.dts)]
        self.k_dt += 1
        self.events.append(('propose', dt))
        return dt

    def correctdXdt(self, dt, x, dXdt):
        self._check('correctdXdt.x', x)
        self._check('correctdXdt.dXdt', dXdt)
        if not (isinstance(dt, (float, np.floating)) and math.isfinite(dt) and dt > 0):
            self.problems.append(('correctdXdt', f'dt={dt!r} handed to correctdXdt is not a positive finite float'))

    def preProcess(self):
        self.pre_calls += 1

    def postProcess(self, time, x):
        ok = self._check('postProcess', x)
        self.accepted += 1
        self.time.append(float(time))
        if ok and math.isfinite(time):
            vals = flat_values(x)
            exp = self.x_first + self.rates * (time - self.t_first)
            scale = np.abs(self.x_first) + np.abs(self.rates) * abs(time - self.t_first) + 1e-300
            # the recorded clock is a rounded sum: allow (steps+1) ulp(t) of clock error times the rate
            slack = np.abs(self.rates) * (self.accepted + 1) * 2 * math.ulp(max(abs(time), abs(self.t_first), 1e-300))
            err = np.max((np.abs(vals - exp) - slack) / scale)
            if not (err < 1e-9):
                j = int(np.argmax((np.abs(vals - exp) - slack) / scale))
                self.problems.append(('postProcess.values', f'state slot {j} = {vals[j]!r}, expected {exp[j]!r} (model tag {self.tag})'))
            self.X = [copy_entry(e) for e in x]
        stop = self.stop_at is not None and self.accepted == self.stop_at
        self.events.append(('accept', float(time), bool(stop)))
        return x, stop

    def flattenX(self, X):
        if self.custom:
            return np.concatenate([np.ravel(np.asarray(x, dtype=float)) for x in X])
        return super().flattenX(X)

    def unflattenX(self, X_flat, X_ref):
        if self.custom:
            out = []
            n = 0
            for r in X_ref:
                a = np.asarray(r)
                k = int(np.prod(a.shape)) if a.shape != () else 1
                out.append(np.reshape(X_flat[n:n + k], a.shape) if a.shape != () else X_flat[n])
                n += k
            return out
        return super().unflattenX(X_flat, X_ref)


def copy_entry(e):
    a = np.asarray(e)
    return a.copy() if a.shape != () else e


class RecordingIterator:
    """Iterator wrapper (passed as solverType): records stage callback times, checks that the flat
    state handed to the iterator is unchanged on return, delegates to the built-in iterator."""

    def __init__(self, inner):
        self.inner = inner
        self.steps = []       # (t, dt, [stage times])
        self.mutated = 0
        self.aliased = 0

    def __call__(self, f, t, X_old, updateX):
        stages = []

        def f2(tt, xx, getDt=False):
            stages.append(float(tt))
            return f(tt, xx, getDt)
        before = np.array(X_old, dtype=float, copy=True)
        Xn, dt = self.inner(f2, t, X_old, updateX)
        if not np.array_equal(before, np.asarray(X_old), equal_nan=True):
            self.mutated += 1
        if Xn is X_old or (isinstance(Xn, np.ndarray) and np.shares_memory(Xn, X_old)):
            self.aliased += 1
        self.steps.append((float(t), float(dt), stages))
        return Xn, dt


ITER = {'euler': SolverType.EXPLICITEULER, 'rk4': SolverType.RK4}
ITER_FN = {'euler': ExplicitEulerIterator, 'rk4': RK4Iterator}


def ulp(x):
    return math.ulp(abs(x)) if math.isfinite(x) else float('inf')
