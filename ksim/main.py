"""ksim command line:  ./check <ID> --tier quick|thorough [--replay file] [--runs N] [--seed N]

exit 0: property held on everything explored (known findings are printed, do not fail)
exit 1: at least one VIOLATION line printed (each with a replay file that reproduces it)
exit 2: harness error (non-reproducible failure, crashed worker, ...) -- never a verdict
"""
import os, sys, json, time, argparse, subprocess, random

HERE = os.path.dirname(os.path.abspath(__file__))
VERIF = os.path.dirname(HERE)
sys.path.insert(0, VERIF)

# environment pinning (the ./check launcher does this; re-exec if called directly)
if os.environ.get('PYTHONHASHSEED') is None or os.environ.get('PYTHONHASHSEED') == 'random':
    os.environ['PYTHONHASHSEED'] = os.environ.get('KSIM_HASHSEED', '0')
    for k in ('OMP_NUM_THREADS', 'OPENBLAS_NUM_THREADS', 'MKL_NUM_THREADS', 'NUMEXPR_NUM_THREADS'):
        os.environ[k] = '1'
    os.environ['MPLBACKEND'] = 'Agg'
    os.environ.setdefault('KAWIN_VERIF', '1')
    os.execv(sys.executable, [sys.executable, '-W', 'ignore'] + sys.argv)

import warnings
warnings.filterwarnings('ignore')

from ksim import core  # noqa: E402


def log(*a):
    print(*a, flush=True)


def run_replay(pid, path):
    mod = core.load_prop(pid)
    with open(path) as f:
        rp = json.load(f)
    rec = rp['record']
    history = rp.get('history', [])      # records the same process executed before (only for failures that depend on process history)
    if hasattr(mod, 'prepare'):
        mod.prepare(rp.get('tier', 'quick'), history + [rec])
    known = core.load_known(pid)
    seq = history + [rec]
    res = core.execute_records(pid, list(enumerate(seq)), batch=len(seq), nproc=1,
                               hard_timeout=getattr(mod, 'HARD_TIMEOUT', 600.0) * 2 * len(seq))[len(seq) - 1]
    if history:
        log(f'replaying {len(history)} earlier record(s) of the same process before the failing one')
    viol, hits = core.split_failures(res, known)
    for k, f in hits:
        log(f"KNOWN-FINDING: property={pid} {k['id']} {f['check']}: {f['detail']}")
    if res['verdict'] in ('harness_error',):
        log('HARNESS-ERROR during replay:\n' + res.get('note', ''))
        return 2
    if viol:
        for v in viol:
            log(f"  failing check: {v['check']} :: {v['detail']}  ctx={json.dumps(v['ctx'], default=str)}")
        log(f'VIOLATION property={pid} replay={path}')
        return 1
    log(f'replay of {path}: no violation (verdict={res["verdict"]} {res.get("note", "")})')
    return 0


def main():
    ap = argparse.ArgumentParser()
    ap.add_argument('pid')
    ap.add_argument('--tier', default=os.environ.get('VERIF_TIER', 'quick'), choices=['quick', 'thorough'])
    ap.add_argument('--seed', type=int, default=int(os.environ.get('VERIF_SEED', core.DEFAULT_SEED)))
    ap.add_argument('--replay')
    ap.add_argument('--runs', type=int)
    ap.add_argument('--digests', help='write per-run event-log digests to this file (determinism self-test)')
    ap.add_argument('--no-evidence', action='store_true')
    ap.add_argument('--no-shrink', action='store_true')
    ap.add_argument('--list', action='store_true', help='list failure counts per (check, ctx)')
    args = ap.parse_args()
    pid = args.pid.upper()
    if args.replay:
        sys.exit(run_replay(pid, args.replay))

    t0 = time.monotonic()
    mod = core.load_prop(pid)
    tier = args.tier
    plan = mod.plan(tier)
    nruns = args.runs or plan['runs']
    import kawin
    log(f'[{pid}] tier={tier} seed={args.seed} runs={nruns} nproc={core.NPROC} PYTHONHASHSEED={os.environ.get("PYTHONHASHSEED")} kawin={os.path.dirname(kawin.__file__)}')

    recs = []
    for i in range(nruns):
        rng = random.Random(core.derive_seed(args.seed, pid, tier, i))
        recs.append((i, mod.generate(rng, tier, i)))
    # regression corpus: the minimised replay of every defect of this property that was repaired in /repo (fixed_replays/) is executed on
    # every run of the check, so a repaired defect that returns is reported deterministically and not only if the seeded search meets it again
    import glob
    corpus = []
    for path in sorted(glob.glob(os.path.join(VERIF, 'fixed_replays', pid + '-*.json'))):
        with open(path) as f:
            rp = json.load(f)
        if rp.get('property', pid) == pid:
            corpus.append((path, rp.get('history', []) + [rp['record']]))
    if hasattr(mod, 'prepare'):
        mod.prepare(tier, [r for _, r in recs] + [r for _, seq in corpus for r in seq])
    known = core.load_known(pid)

    last = [time.monotonic()]

    def progress(done, total):
        if time.monotonic() - last[0] > 30:
            last[0] = time.monotonic()
            log(f'  ... {done}/{total} batches')

    results = core.execute_records(pid, recs, batch=plan.get('batch', 1),
                                   hard_timeout=plan.get('hard_timeout', 600.0),
                                   soft_timeout=plan.get('soft_timeout'), progress=progress)

    # ------------------------------------------------------------- classify
    counters = {}
    sigs = set()
    nontrivial_digests = set()
    n_inconclusive = n_harness = 0
    viol_by_check = {}
    known_seen = {}
    harness_notes = []
    for i, rec in recs:
        res = results[i]
        for k, v in res.get('counters', {}).items():
            counters[k] = counters.get(k, 0) + v
        if res['verdict'] == 'inconclusive':
            n_inconclusive += 1
            counters['inconclusive:' + res.get('note', '')[:40]] = counters.get('inconclusive:' + res.get('note', '')[:40], 0) + 1
            continue
        if res['verdict'] == 'harness_error':
            n_harness += 1
            harness_notes.append((i, res.get('note', '')))
            continue
        if res.get('nontrivial'):
            sigs.add(res.get('sig', ''))
            nontrivial_digests.add(core.rec_digest(rec))
        viol, hits = core.split_failures(res, known)
        for k, f in hits:
            known_seen.setdefault(k['id'], []).append((i, f))
        for v in viol:
            viol_by_check.setdefault(v['check'], []).append((i, v))

    if args.digests:
        import hashlib

        def dg(res):
            # event-log digest where the world records one, else a digest of everything the run reported
            base = res.get('digest', '')
            cn = {k: (float(v).hex() if isinstance(v, float) else v) for k, v in sorted(res.get('counters', {}).items()) if not k.startswith('inconclusive')}
            extra = json.dumps([res.get('sig', ''), cn, [(x['check'], x['detail']) for x in res.get('failures', [])]], sort_keys=True, default=str)
            return base + ':' + hashlib.sha256(extra.encode()).hexdigest()[:12]
        with open(args.digests, 'w') as f:
            json.dump({str(i): [dg(results[i]), results[i]['verdict'], sorted(x['check'] for x in results[i].get('failures', []))] for i, _ in recs}, f, indent=0)

    if args.list:
        tab = {}
        for i, rec in recs:
            for f in results[i].get('failures', []):
                key = (f['check'], json.dumps(f['ctx'], sort_keys=True, default=str))
                tab.setdefault(key, []).append((i, f['detail']))
        for key, lst in sorted(tab.items()):
            log(f'LIST {key[0]} ctx={key[1]} runs={len(lst)} first={lst[0][0]}: {lst[0][1][:300]}')

    # ------------------------------------------------------------- report known findings
    for k in known:
        seen = known_seen.get(k['id'], [])
        ex = f" e.g. run {seen[0][0]}: {seen[0][1]['detail']}" if seen else ''
        log(f"KNOWN-FINDING: property={pid} {k['id']}: {k['description']} [seen in {len(seen)} runs of this batch]{ex}")

    # ------------------------------------------------------------- violations: shrink, write replay, confirm
    exit_code = 0
    nviol = 0
    os.makedirs(os.path.join(VERIF, 'replays'), exist_ok=True)
    recmap = dict(recs)
    for check, lst in sorted(viol_by_check.items()):
        nviol += len(lst)
    reported = 0
    for check, lst in sorted(viol_by_check.items()):
        if reported >= 4:
            log(f'  (further failing check {check}: {len(lst)} runs, first run {lst[0][0]}: {lst[0][1]["detail"]})')
            continue
        reported += 1
        i, v = lst[0]
        rec = recmap[i]
        log(f'FAILURE {check} in {len(lst)} runs; first run index {i}: {v["detail"]} ctx={json.dumps(v["ctx"], default=str)}')
        history = []
        bsz = plan.get('batch', 1)
        pos = [j for j, _ in recs].index(i)
        alone = True
        if pos % bsz:
            alone = core.fails_in_sequence(pid, [rec], check, known, plan.get('hard_timeout', 600.0), plan.get('soft_timeout'))
        if not alone:
            # the record does not fail in a process of its own: what the same worker process executed before it is part of the history
            history = [r for _, r in recs[pos - pos % bsz:pos]]
            log(f'  run {i} does not fail in a fresh process; replaying it after the {len(history)} earlier record(s) of its batch')
            if not args.no_shrink and core.fails_in_sequence(pid, history + [rec], check, known, plan.get('hard_timeout', 600.0), plan.get('soft_timeout')):
                history = core.shrink_history(pid, history, rec, check, known, soft_timeout=plan.get('soft_timeout'), hard_timeout=plan.get('hard_timeout', 600.0), log=log)
        elif not args.no_shrink:
            rec, acc = core.shrink(pid, rec, check, known, time_budget=plan.get('shrink_budget', 180.0),
                                   soft_timeout=plan.get('soft_timeout'), hard_timeout=plan.get('hard_timeout', 600.0), log=log)
        path = os.path.join(VERIF, 'replays', f'{pid}-{check.replace("/", "_")}-{args.seed}-{i}.json')
        with open(path, 'w') as f:
            doc = {'property': pid, 'tier': tier, 'seed': args.seed, 'index': i, 'check': check, 'detail': v['detail'], 'record': rec}
            if history:
                doc['history'] = history
                doc['note'] = 'the failure depends on state the code under test keeps outside its model objects: the records in "history" are executed first, in the same process'
            json.dump(doc, f, indent=1, default=str)
        # confirm in a fresh interpreter
        cp = subprocess.run([os.path.join(VERIF, 'check'), pid, '--replay', path], capture_output=True, text=True)
        if cp.returncode == 1 and f'failing check: {check}' in cp.stdout:
            for line in cp.stdout.splitlines():
                if line.startswith('  failing check'):
                    log(line)
            log(f'VIOLATION property={pid} replay={path}')
            exit_code = 1
        else:
            log(f'NONREPRODUCIBLE {check}: replay in fresh interpreter gave rc={cp.returncode}\n{cp.stdout[-1500:]}\n{cp.stderr[-1500:]}')
            if exit_code == 0:
                exit_code = 2

    corpus_failed = 0
    for path, seq in corpus:
        res = core.execute_records(pid, list(enumerate(seq)), batch=len(seq), nproc=1, hard_timeout=plan.get('hard_timeout', 600.0) * len(seq),
                                   soft_timeout=plan.get('soft_timeout'))[len(seq) - 1]
        viol, _ = core.split_failures(res, known)
        if viol:
            corpus_failed += 1
            nviol += 1
            for v in viol[:3]:
                log(f"  failing check: {v['check']} :: {v['detail']}  ctx={json.dumps(v['ctx'], default=str)}")
            log(f'  (regression corpus: the repaired defect recorded in {os.path.relpath(path, VERIF)} is back)')
            log(f'VIOLATION property={pid} replay={path}')
            exit_code = 1
        elif res['verdict'] == 'harness_error':
            log(f'HARNESS-ERROR in regression corpus file {path}:\n' + res.get('note', ''))
            if exit_code == 0:
                exit_code = 2
    counters['regression_corpus_files'] = len(corpus)
    counters['regression_corpus_failing'] = corpus_failed

    if n_harness:
        log(f'HARNESS-ERROR in {n_harness} runs; first (run {harness_notes[0][0]}):\n{harness_notes[0][1]}')
        if exit_code == 0:
            exit_code = 2

    wall = time.monotonic() - t0
    evaluated = len(recs) - n_inconclusive - n_harness
    # ------------------------------------------------------------- evidence
    if not args.no_evidence:
        samples = []
        for i, rec in recs:
            if results[i].get('nontrivial') and len(samples) < 3:
                samples.append({'run_index': i, 'record': core._trim(rec), 'signature': results[i].get('sig', ''),
                                'verdict': results[i]['verdict']})
        steps = counters.get('steps', 0)
        cov = {
            'evaluations': len(recs),
            'distinct_nontrivial': len(nontrivial_digests),
            'distinct_behaviour_signatures': len(sigs),
            'rule': mod.RULE,
            'samples': samples or [{'run_index': recs[0][0], 'record': core._trim(recs[0][1])}],
            'runs_evaluated': evaluated,
            'inconclusive_budget': n_inconclusive,
            'harness_errors': n_harness,
            'runs_per_hour': round(len(recs) / wall * 3600) if wall > 0 else 0,
            'seeds_per_hour': round(len(recs) / wall * 3600) if wall > 0 else 0,
            'counters': {k: (round(v, 6) if isinstance(v, float) else v) for k, v in sorted(counters.items())},
            'components': getattr(mod, 'COMPONENTS', {}),
            'known_findings_seen': {k: len(v) for k, v in known_seen.items()},
            'violating_checks': {k: len(v) for k, v in viol_by_check.items()},
            'exhaustive': False,
        }
        if hasattr(mod, 'extra_coverage'):
            cov.update(mod.extra_coverage(tier, recs, results))
        core.write_evidence(pid, tier, args.seed, mod.LEVEL, cov, getattr(mod, 'ASSUMPTIONS', []), wall, nviol)
    log(f'[{pid}] done: runs={len(recs)} evaluated={evaluated} nontrivial={len(nontrivial_digests)} sigs={len(sigs)} '
        f'inconclusive={n_inconclusive} violations={nviol} known={sum(len(v) for v in known_seen.values())} wall={wall:.1f}s exit={exit_code}')
    sys.exit(exit_code)


if __name__ == '__main__':
    main()
