"""ksim core: seeds, fork-per-run pool, shrinking driver, known findings, evidence.

Everything random in a check is derived from one integer (VERIF_SEED).  Run records are
generated up-front in the parent from per-run PRNGs and are plain JSON; executing a record is
a pure function of the record and of the code in /repo.  Every record is executed in a freshly
forked child of a parent that has imported kawin (and, where needed, built pristine
thermodynamics objects), so no state leaks from one run to the next and results do not depend
on which worker ran what.
"""
import os, sys, json, hashlib, random, time, select, pickle, signal, traceback, copy, subprocess, math

VERIF = os.path.dirname(os.path.dirname(os.path.abspath(__file__)))
DEFAULT_SEED = 20261003
NPROC = int(os.environ.get('VERIF_NPROC', '16'))


# ----------------------------------------------------------------------------- seeds
def derive_seed(seed, pid, tier, i):
    h = hashlib.sha256(f'{seed}|{pid}|{tier}|{i}'.encode()).hexdigest()
    return int(h[:15], 16)


def rec_digest(rec):
    return hashlib.sha256(json.dumps(rec, sort_keys=True, default=str).encode()).hexdigest()[:16]


class Digest:
    """Order-sensitive digest of an event log; used by the determinism self-test."""
    def __init__(self):
        self.h = hashlib.sha256()
        self.n = 0

    def add(self, *vals):
        for v in vals:
            if isinstance(v, float):
                self.h.update(v.hex().encode())
            elif hasattr(v, 'tobytes'):
                self.h.update(v.tobytes())
            else:
                self.h.update(repr(v).encode())
            self.h.update(b'|')
        self.n += 1

    def hex(self):
        return self.h.hexdigest()[:20]


# ----------------------------------------------------------------------------- failures
def failure(check, detail, **ctx):
    return {'check': check, 'detail': str(detail)[:600], 'ctx': ctx}


class Failures:
    """Collects distinct failures of one run (distinct by check id + ctx)."""
    def __init__(self, cap=12):
        self.items = []
        self.keys = set()
        self.cap = cap

    def add(self, check, detail, **ctx):
        k = (check, json.dumps(ctx, sort_keys=True, default=str))
        if k in self.keys or len(self.items) >= self.cap:
            return
        self.keys.add(k)
        self.items.append(failure(check, detail, **ctx))

    def __bool__(self):
        return bool(self.items)


def result(failures=None, sig='', nontrivial=True, counters=None, digest='', verdict=None, note=''):
    fl = failures.items if isinstance(failures, Failures) else (failures or [])
    return {'verdict': verdict or ('violation' if fl else 'ok'), 'failures': fl, 'sig': sig,
            'nontrivial': bool(nontrivial), 'counters': counters or {}, 'digest': digest, 'note': note}


class RunTimeout(BaseException):
    """Soft wall cap of one run; derives from BaseException so that property code catching Exception cannot mistake it for a model failure."""
    pass


class Inconclusive(Exception):
    pass


# ----------------------------------------------------------------------------- pool
def _child_main(fn, arg, wfd, soft_timeout):
    try:
        import faulthandler
        faulthandler.enable()
        if soft_timeout:
            def _alarm(signum, frame):
                raise RunTimeout()
            signal.signal(signal.SIGALRM, _alarm)
        out = fn(arg, soft_timeout)
        payload = ('ok', out)
    except BaseException as e:  # noqa
        payload = ('crash', ''.join(traceback.format_exception(type(e), e, e.__traceback__))[-3000:])
    try:
        data = pickle.dumps(payload)
        with os.fdopen(wfd, 'wb') as f:
            f.write(data)
    finally:
        os._exit(0)


def run_pool(tasks, fn, nproc=NPROC, hard_timeout=600.0, soft_timeout=None, progress=None):
    """tasks: list of picklable args.  fn(arg, soft_timeout) runs in a fresh forked child.
    Returns list aligned with tasks of ('ok', value) | ('timeout', None) | ('crash', text)."""
    results = [None] * len(tasks)
    pending = list(range(len(tasks)))[::-1]
    live = {}  # rfd -> [idx, pid, t0, buf]
    done = 0
    while pending or live:
        while pending and len(live) < nproc:
            idx = pending.pop()
            rfd, wfd = os.pipe()
            sys.stdout.flush(); sys.stderr.flush()
            pid = os.fork()
            if pid == 0:
                os.close(rfd)
                for other in live:
                    try:
                        os.close(other)
                    except OSError:
                        pass
                _child_main(fn, tasks[idx], wfd, soft_timeout)
            os.close(wfd)
            live[rfd] = [idx, pid, time.monotonic(), bytearray()]
        if not live:
            continue
        rl, _, _ = select.select(list(live), [], [], 0.5)
        now = time.monotonic()
        for rfd in rl:
            ent = live[rfd]
            chunk = os.read(rfd, 1 << 20)
            if chunk:
                ent[3] += chunk
                continue
            os.close(rfd)
            try:
                os.waitpid(ent[1], 0)
            except ChildProcessError:
                pass
            try:
                results[ent[0]] = pickle.loads(bytes(ent[3]))
            except Exception:
                results[ent[0]] = ('crash', 'child died without a result (signal / hard crash)')
            del live[rfd]
            done += 1
            if progress:
                progress(done, len(tasks))
        for rfd in list(live):
            ent = live[rfd]
            if now - ent[2] > hard_timeout:
                try:
                    os.kill(ent[1], signal.SIGKILL)
                    os.waitpid(ent[1], 0)
                except Exception:
                    pass
                os.close(rfd)
                results[ent[0]] = ('timeout', None)
                del live[rfd]
                done += 1
    return results


def _exec_batch(arg, soft_timeout):
    """Child side: run a batch of (index, record) through the module's execute."""
    modname, batch = arg
    mod = load_prop(modname)
    out = []
    for idx, rec in batch:
        t0 = time.monotonic()
        try:
            if soft_timeout:
                signal.setitimer(signal.ITIMER_REAL, soft_timeout)
            res = mod.execute(rec)
        except RunTimeout:
            res = result(verdict='inconclusive', note='soft wall cap', nontrivial=False)
        except Inconclusive as e:
            res = result(verdict='inconclusive', note=str(e), nontrivial=False)
        except Exception as e:  # harness error: classified apart from violations
            res = result(verdict='harness_error', nontrivial=False,
                         note=''.join(traceback.format_exception(type(e), e, e.__traceback__))[-2500:])
        finally:
            if soft_timeout:
                signal.setitimer(signal.ITIMER_REAL, 0)
        res['wall'] = time.monotonic() - t0
        out.append((idx, res))
    return out


_PROP_CACHE = {}


def load_prop(pid):
    pid = pid.upper()
    if pid not in _PROP_CACHE:
        import importlib
        _PROP_CACHE[pid] = importlib.import_module('ksim.props.' + pid.lower())
    return _PROP_CACHE[pid]


def execute_records(pid, indexed_records, batch=1, nproc=NPROC, hard_timeout=600.0, soft_timeout=None, progress=None):
    """Runs records [(idx, rec)] in forked children; returns dict idx -> result."""
    batches = [indexed_records[i:i + batch] for i in range(0, len(indexed_records), batch)]
    raw = run_pool([(pid, b) for b in batches], _exec_batch, nproc=nproc,
                   hard_timeout=hard_timeout, soft_timeout=soft_timeout, progress=progress)
    out = {}
    for b, r in zip(batches, raw):
        if r[0] == 'ok':
            for idx, res in r[1]:
                out[idx] = res
        elif r[0] == 'timeout':
            for idx, _ in b:
                out[idx] = result(verdict='inconclusive', note='hard wall cap (child killed)', nontrivial=False)
        else:
            for idx, _ in b:
                out[idx] = result(verdict='harness_error', note=r[1], nontrivial=False)
    return out


# ----------------------------------------------------------------------------- known findings
def load_known(pid):
    path = os.path.join(VERIF, 'known_findings.json')
    if not os.path.exists(path):
        return []
    with open(path) as f:
        data = json.load(f)
    return [k for k in data.get('findings', []) if k.get('property') == pid]


def match_known(fail, known):
    for k in known:
        if k['check'] != fail['check']:
            continue
        ctx = fail.get('ctx', {})
        if all(ctx.get(a) == b for a, b in k.get('where', {}).items()):
            return k
    return None


def split_failures(res, known):
    """-> (violations, known_hits[(finding, failure)])"""
    viol, hits = [], []
    for f in res.get('failures', []):
        k = match_known(f, known)
        if k is None:
            viol.append(f)
        else:
            hits.append((k, f))
    return viol, hits


# ----------------------------------------------------------------------------- shrinking helpers
def ddmin_candidates(lst):
    """Candidate shorter lists, big chunks first (classic ddmin complement order)."""
    n = len(lst)
    if n <= 1:
        if n == 1:
            yield []
        return
    k = 2
    seen = set()
    while k <= n:
        size = math.ceil(n / k)
        for s in range(0, n, size):
            cand = lst[:s] + lst[s + size:]
            key = json.dumps(cand, sort_keys=True, default=str)
            if key not in seen:
                seen.add(key)
                yield cand
        if k == n:
            break
        k = min(n, k * 2)


def fails_in_sequence(pid, seq, target_check, known, hard_timeout=600.0, soft_timeout=None):
    """Executes the records of seq one after the other in ONE fresh child process; True iff the LAST one fails target_check
    (and that failure is not a listed known finding)."""
    res = execute_records(pid, list(enumerate(seq)), batch=len(seq), nproc=1, hard_timeout=hard_timeout * max(1, len(seq)), soft_timeout=soft_timeout)
    last = res[len(seq) - 1]
    if last['verdict'] in ('inconclusive', 'harness_error'):
        return False
    viol, _ = split_failures(last, known)
    return any(v['check'] == target_check for v in viol)


def shrink_history(pid, history, rec, target_check, known, time_budget=150.0, soft_timeout=None, hard_timeout=600.0, log=None):
    """The failure of rec depends on what the same process executed before (state kept by the code under test outside the model
    objects): minimise that list of earlier records (ddmin) while rec still fails the same check as the last record of the sequence."""
    t0 = time.monotonic()
    improved = True
    while improved and history and time.monotonic() - t0 < time_budget:
        improved = False
        for cand in ddmin_candidates(history):
            if time.monotonic() - t0 > time_budget:
                break
            if fails_in_sequence(pid, cand + [rec], target_check, known, hard_timeout, soft_timeout):
                history = cand
                improved = True
                if log:
                    log(f'  shrink: process history reduced to {len(history)} earlier record(s)')
                break
    return history


def shrink(pid, rec, target_check, known, time_budget=240.0, soft_timeout=None, hard_timeout=300.0, log=None):
    """Greedy parallel shrinking: keep a candidate iff the same check id still fails (and the
    failure is not a listed known finding)."""
    mod = load_prop(pid)
    if not hasattr(mod, 'shrink_candidates'):
        return rec, 0
    t0 = time.monotonic()
    accepted = 0
    improved = True
    ever = {rec_digest(rec)}          # never revisit a record: guarantees termination
    while improved and time.monotonic() - t0 < time_budget:
        improved = False
        cands = []
        seen = set(ever)
        for c in mod.shrink_candidates(rec):
            d = rec_digest(c)
            if d in seen:
                continue
            seen.add(d)
            cands.append(c)
            if len(cands) >= 48:
                break
        if not cands:
            break
        for i in range(0, len(cands), NPROC):
            chunk = cands[i:i + NPROC]
            res = execute_records(pid, list(enumerate(chunk)), batch=1, soft_timeout=soft_timeout,
                                  hard_timeout=hard_timeout)
            hit = None
            for j in range(len(chunk)):
                viol, _ = split_failures(res[j], known)
                if any(v['check'] == target_check for v in viol):
                    hit = chunk[j]
                    break
            if hit is not None:
                rec = hit
                ever.add(rec_digest(rec))
                accepted += 1
                improved = True
                if log:
                    log(f'  shrink: accepted candidate #{accepted} (size {len(json.dumps(rec))})')
                break
            if time.monotonic() - t0 > time_budget:
                break
    return rec, accepted


# ----------------------------------------------------------------------------- evidence
def _trim(obj, maxlen=4000):
    s = json.dumps(obj, default=str)
    if len(s) <= maxlen:
        return obj
    return {'truncated_json': s[:maxlen]}


def write_evidence(pid, tier, seed, level, coverage, assumptions, wall, violations):
    os.makedirs(os.path.join(VERIF, 'evidence'), exist_ok=True)
    ev = {'property_id': pid, 'tier': tier, 'seed': int(seed), 'level': level, 'coverage': coverage,
          'assumptions': assumptions, 'wall_s': round(float(wall), 2), 'violations': int(violations)}
    path = os.path.join(VERIF, 'evidence', f'{pid}.json')
    tmp = path + '.tmp'
    with open(tmp, 'w') as f:
        json.dump(ev, f, indent=1, default=str)
    os.replace(tmp, path)
    return path
