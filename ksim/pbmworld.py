"""PBM world: one real kawin PopulationBalanceModel driven op by op, with a scalar reference.

Serves C07 (transport: the `step` op, run at whatever state the preceding operation history
produced, incl. the RK4 calling pattern) and C08 (grid operations).  Failures carry check ids
prefixed C07. / C08.; each property module keeps its own prefix.
"""
import math, copy
import numpy as np
from ksim import core
from kawin.precipitation.PopulationBalance import PopulationBalanceModel

ULP = np.finfo(float).eps


# ------------------------------------------------------------------ generation
def gen_config(rng, extreme=False):
    minBins = 2 * rng.randint(3, 30)
    maxBins = 2 * rng.randint(minBins, 2 * minBins)          # >= 2*minBins, even
    bins = 2 * rng.randint(minBins // 2, maxBins // 2)
    cMin = 10 ** rng.uniform(-10.5, -9)
    cMax = cMin * rng.choice([2, 5, 10, 10, 20, 50])
    return {'cMin': cMin, 'cMax': cMax, 'bins': bins, 'minBins': minBins, 'maxBins': maxBins}


def gen_dist(rng):
    kind = rng.choice(['lognorm', 'lognorm', 'bump', 'sparse', 'single', 'empty', 'flat', 'edge'])
    return {'kind': kind, 'amp': 10 ** rng.uniform(0, 26), 'pos': rng.uniform(0.05, 0.95), 'width': rng.uniform(0.02, 0.4),
            'seed': rng.randint(0, 10 ** 6)}


def gen_growth(rng):
    kind = rng.choice(['physical', 'physical', 'physical', 'pos', 'neg', 'alt', 'zeros', 'range', 'onesign_change'])
    return {'kind': kind, 'mag': 10 ** rng.uniform(-14, -6), 'pos': rng.uniform(-0.2, 1.2), 'seed': rng.randint(0, 10 ** 6)}


def gen_step(rng):
    rn = rng.choice(['inside', 'inside', 'inside', 'edge_lo', 'edge_hi', 'bound', 'below', 'above', 'zero'])
    return {'op': 'step', 'g': gen_growth(rng), 'J': rng.choice([0.0, 0.0, 10 ** rng.uniform(0, 25)]), 'Rn': rn, 'rnpos': rng.random(),
            'dtf': rng.choice([1.0, 1.0, 1.0, 0.5, 0.1, 2.0, 10.0, 1000.0]), 'rk4': rng.random() < 0.35,
            'maxDiss': rng.choice([1e-3, 1e-2, 0.1, 0.0]), 'minIndex': rng.choice([0, 0, 0, 1, 3]),
            'adjust': rng.random() < 0.5, 'trial': gen_dist(rng) if rng.random() < 0.3 else None}


def gen_ops(rng, focus, nmax=25, extreme=False):
    n = rng.randint(1, nmax)
    ops = []
    # always start by putting something into the grid (most of the time)
    if rng.random() < 0.85:
        ops.append({'op': rng.choice(['loadfunc', 'update', 'loaddata']), 'dist': gen_dist(rng)})
    weights = {'step': 8 if focus == 'C07' else 3, 'update': 2, 'loadfunc': 1, 'loaddata': 1, 'add': 2, 'remesh': 3, 'adjust': 3,
               'backup': 1.5, 'revert': 1.5, 'reset': 0.7, 'reset_keep': 0.7, 'adaptive': 0.5, 'moments': 2, 'load_recorded': 1.0}
    names = list(weights)
    w = [weights[k] for k in names]
    for _ in range(n):
        k = rng.choices(names, w)[0]
        if k == 'step':
            ops.append(gen_step(rng))
        elif k in ('update', 'loadfunc', 'loaddata'):
            ops.append({'op': k, 'dist': gen_dist(rng)})
        elif k == 'add':
            ops.append({'op': 'add', 'k': rng.randint(1, 40)})
        elif k == 'remesh':
            mode = rng.choice(['coarser', 'finer', 'shift_lo', 'grow', 'shrink_to_populated', 'same'])
            op = {'op': 'remesh', 'mode': mode, 'f': rng.uniform(0.1, 0.9), 'binsf': rng.random(), 'explicit_bins': rng.random() < 0.8}
            if extreme and rng.random() < 0.5:
                op['extreme_bins'] = rng.choice([2, 4, 6])
            ops.append(op)
        elif k == 'adjust':
            ops.append({'op': 'adjust', 'flag': rng.random() < 0.5})
        elif k == 'adaptive':
            ops.append({'op': 'adaptive', 'on': rng.random() < 0.5})
        elif k == 'moments':
            ops.append({'op': 'moments', 'dist': gen_dist(rng), 'order': rng.choice([0, 1, 2, 3, 0.5, 2.5])})
        elif k == 'load_recorded':
            # 'load' of a recorded distribution: position relative to the recorded time span (before the first, on a record, between two, after the last)
            ops.append({'op': 'load_recorded', 'frac': rng.choice([-0.2, 0.0, 1.0, 1.3, round(rng.random(), 3), round(rng.random(), 3)]), 'snap': rng.random() < 0.5})
        else:
            ops.append({'op': k})
    return ops


def generate(rng, focus, tier, index):
    extreme = (focus == 'C08') and (rng.random() < 0.12)
    return {'cfg': gen_config(rng), 'adaptive': rng.random() < 0.7, 'ops': gen_ops(rng, focus, 25 if tier == 'thorough' else 18, extreme),
            'extreme': extreme}


# ------------------------------------------------------------------ materialisation of specs on the current grid
def make_dist(spec, bounds):
    n = len(bounds) - 1
    c = 0.5 * (bounds[1:] + bounds[:-1])
    rs = np.random.RandomState(spec['seed'])
    lo, hi = bounds[0], bounds[-1]
    mu = lo + spec['pos'] * (hi - lo)
    k = spec['kind']
    if k == 'empty':
        N = np.zeros(n)
    elif k == 'lognorm':
        s = 0.1 + spec['width']
        N = spec['amp'] * np.exp(-(np.log(c / mu)) ** 2 / (2 * s * s))
    elif k == 'bump':
        wdt = spec['width'] * (hi - lo)
        N = spec['amp'] * np.exp(-((c - mu) / wdt) ** 2)
    elif k == 'sparse':
        N = np.where(rs.rand(n) < 0.2, spec['amp'] * rs.rand(n), 0.0)
    elif k == 'single':
        N = np.zeros(n); N[min(n - 1, int(spec['pos'] * n))] = spec['amp']
    elif k == 'flat':
        N = spec['amp'] * np.ones(n)
    elif k == 'edge':
        N = np.zeros(n); N[-1] = spec['amp']; N[0] = spec['amp'] * 0.5
    N = np.asarray(N, dtype=float)
    return N


def make_samples(spec, bounds):
    rs = np.random.RandomState(spec['seed'])
    lo, hi = bounds[0], bounds[-1]
    mu = lo + spec['pos'] * (hi - lo)
    m = int(min(5000, max(1, math.log10(spec['amp'] + 1) * 150)))
    data = mu * np.exp(rs.randn(m) * (0.1 + spec['width']))
    if spec['kind'] == 'empty':
        data = np.array([])
    return data


def make_growth(spec, bounds):
    rs = np.random.RandomState(spec['seed'])
    lo, hi = bounds[0], bounds[-1]
    Rs = lo + spec['pos'] * (hi - lo)
    R = bounds
    k = spec['kind']
    a = spec['mag']
    if k == 'physical':
        Rs = max(Rs, lo * 0.3)
        g = a * lo * (1 / Rs - 1 / R) / R * lo
    elif k == 'pos':
        g = a * (0.2 + rs.rand(len(R)))
    elif k == 'neg':
        g = -a * (0.2 + rs.rand(len(R)))
    elif k == 'alt':
        g = a * rs.randn(len(R))
        g[rs.rand(len(R)) < 0.15] = 0.0
    elif k == 'zeros':
        g = np.zeros(len(R))
    elif k == 'range':
        g = a * 10 ** (rs.uniform(-12, 6, len(R))) * np.sign(rs.randn(len(R)))
    elif k == 'onesign_change':
        g = a * (R - Rs) / (hi - lo)
    return np.asarray(g, dtype=float)


# ------------------------------------------------------------------ reference pieces (scalar loops)
def ref_faces(bounds, g, N):
    nb = len(N)
    F = [0.0] * (nb + 1)
    for i in range(nb + 1):
        gi = g[i]
        if gi > 0:
            if i >= 1:
                F[i] = gi * N[i - 1] / (bounds[i] - bounds[i - 1])
        elif gi < 0:
            if i < nb:
                F[i] = gi * N[i] / (bounds[i + 1] - bounds[i])
    return F


def ref_nuc_class(bounds, Rn):
    nb = len(bounds) - 1
    for k in range(nb):
        if bounds[k] <= Rn < bounds[k + 1]:
            return k
    return None


def ref_moment(N, centres, order, weights=None):
    s = 0.0
    cum = []
    for i in range(len(N)):
        t = N[i] * centres[i] ** order
        if weights is not None:
            t *= weights[i]
        s += t
        cum.append(s)
    return s, cum


def close(a, b, rtol=1e-12, atol=0.0):
    return abs(a - b) <= atol + rtol * max(abs(a), abs(b))


# ------------------------------------------------------------------ execution
class Machine:
    def __init__(self, rec, F, D, cnt):
        self.rec = rec
        self.F, self.D, self.cnt = F, D, cnt
        c = rec['cfg']
        self.cfg = c
        self.pbm = PopulationBalanceModel(c['cMin'], c['cMax'], c['bins'], c['minBins'], c['maxBins'])
        self.pbm.setAdaptiveBinSize(rec['adaptive'])
        self.adaptive = rec['adaptive']
        if any(o['op'] == 'load_recorded' for o in rec['ops']):
            self.pbm.enableRecording()        # every update op then records (time, distribution, grid)
        self.backup = None           # snapshot at the latest createBackup
        self.t = 0.0
        self.sig = set()
        self.check_invariants('construct', 0)

    # ---- invariants after every op (C08)
    def check_invariants(self, opname, k):
        p, F = self.pbm, self.F
        b = np.asarray(p.PSDbounds, dtype=float)
        ctx = dict(op=opname)
        if len(p.PSD) != p.bins or len(b) != p.bins + 1 or len(p.PSDsize) != p.bins:
            F.add('C08.lengths', f'after op {k} ({opname}): len(PSD)={len(p.PSD)} len(bounds)={len(b)} len(centres)={len(p.PSDsize)} bins={p.bins}', **ctx)
            return False
        if not np.all(np.isfinite(b)) or not np.all(np.diff(b) > 0):
            F.add('C08.bounds_increasing', f'after op {k} ({opname}): class boundaries not strictly increasing / finite (first={b[:3]}, last={b[-3:]})', **ctx)
            return False
        tol = 4 * ULP * abs(b[-1])
        if abs(b[0] - p.min) > tol or abs(b[-1] - p.max) > tol:
            F.add('C08.bounds_minmax', f'after op {k} ({opname}): bounds[0]={b[0]!r} min={p.min!r} bounds[-1]={b[-1]!r} max={p.max!r}', **ctx)
        mid = 0.5 * (b[1:] + b[:-1])
        if np.max(np.abs(np.asarray(p.PSDsize) - mid)) > 2 * ULP * b[-1]:
            F.add('C08.centres', f'after op {k} ({opname}): class centres are not the midpoints of the boundaries', **ctx)
        psd = np.asarray(p.PSD, dtype=float)
        if not np.all(np.isfinite(psd)):
            F.add('C08.psd_finite', f'after op {k} ({opname}): non-finite population', **ctx)
        elif np.any(psd < 0):
            i = int(np.argmin(psd))
            F.add('C08.psd_nonneg', f'after op {k} ({opname}): negative population {psd[i]!r} in class {i}', **ctx)
        return True

    def snapshot(self):
        p = self.pbm
        return dict(PSD=np.array(p.PSD, dtype=float, copy=True), bounds=np.array(p.PSDbounds, dtype=float, copy=True),
                    size=np.array(p.PSDsize, dtype=float, copy=True), bins=int(p.bins), min=float(p.min), max=float(p.max))

    def run(self):
        ok_struct = True
        for k, op in enumerate(self.rec['ops']):
            name = op['op']
            self.cnt['ops'] += 1
            self.cnt['op:' + name] = self.cnt.get('op:' + name, 0) + 1
            try:
                getattr(self, 'op_' + name)(k, op)
            except core.Inconclusive:
                raise
            except Exception as e:  # noqa
                import traceback
                tb = traceback.extract_tb(e.__traceback__)
                where = [f for f in tb if 'kawin' in f.filename]
                loc = f'{where[-1].name}:{where[-1].lineno}' if where else 'harness'
                if not where:
                    raise
                pref = 'C07' if name == 'step' else 'C08'
                self.F.add(pref + '.exception', f'op {k} ({name}) raised {type(e).__name__}: {e} at {loc}', op=name, exc=type(e).__name__)
                return
            if not self.check_invariants(name, k):
                return
            p = self.pbm
            self.D.add(k, name, p.bins, float(p.min), float(p.max), np.asarray(p.PSD, dtype=float))

    # ---- ops
    def op_update(self, k, op):
        N = make_dist(op['dist'], self.pbm.PSDbounds)
        Nin = N.copy()
        self.t += 1.0
        self.pbm.UpdatePBMEuler(self.t, N)
        exp = np.where(Nin < 1, 0.0, Nin)
        if not np.array_equal(np.asarray(self.pbm.PSD), exp):
            self.F.add('C08.update', f'op {k}: UpdatePBMEuler stored something else than the supplied populations with classes below 1 removed', op='update')
        if np.any(exp > 0):
            self.sig.add('pop')

    def op_loadfunc(self, k, op):
        spec = op['dist']
        bounds = np.array(self.pbm.PSDbounds, copy=True)
        self.pbm.LoadDistributionFunction(lambda R: make_dist(spec, bounds))
        if np.any(np.asarray(self.pbm.PSD) > 0):
            self.sig.add('pop')

    def op_loaddata(self, k, op):
        data = make_samples(op['dist'], self.pbm.PSDbounds)
        b = np.array(self.pbm.PSDbounds, copy=True)
        self.pbm.LoadDistribution(data)
        inside = int(np.sum((data >= b[0]) & (data <= b[-1])))
        tot = float(np.sum(self.pbm.PSD))
        if tot != inside:
            self.F.add('C08.load', f'op {k}: LoadDistribution counted {tot} of {inside} samples inside the grid', op='loaddata')
        if not np.array_equal(np.asarray(self.pbm.PSDbounds), b):
            self.F.add('C08.load', f'op {k}: LoadDistribution changed the class boundaries', op='loaddata')
        if inside:
            self.sig.add('pop')

    def op_add(self, k, op):
        before = self.snapshot()
        self.pbm.addSizeClasses(op['k'])
        p = self.pbm
        self.sig.add('extend')
        self._check_extend(k, before, op['k'], 'add')

    def _check_extend(self, k, before, nadd, opname):
        p = self.pbm
        nb = before['bins']
        if p.bins != nb + nadd:
            self.F.add('C08.extend', f'op {k}: extending by {nadd} classes gave {p.bins} classes from {nb}', op=opname)
            return
        if not np.array_equal(np.asarray(p.PSD)[:nb], before['PSD']):
            self.F.add('C08.extend', f'op {k}: extending the grid changed existing populations', op=opname)
        if np.any(np.asarray(p.PSD)[nb:] != 0):
            self.F.add('C08.extend', f'op {k}: new classes are not empty', op=opname)
        mv = np.max(np.abs(np.asarray(p.PSDbounds)[:nb + 1] - before['bounds']))
        if mv > 8 * ULP * before['bounds'][-1]:
            self.F.add('C08.extend', f'op {k}: extending the grid moved an existing class boundary by {mv!r}', op=opname)
        w_old = before['bounds'][1] - before['bounds'][0]
        w_new = p.PSDbounds[-1] - p.PSDbounds[-2]
        if abs(w_new - w_old) > 1e-9 * w_old:
            self.F.add('C08.extend', f'op {k}: new classes have width {w_new!r}, existing ones {w_old!r}', op=opname)

    def op_remesh(self, k, op):
        p = self.pbm
        before = self.snapshot()
        b = before['bounds']
        pop = np.nonzero(before['PSD'] > 0)[0]
        mode = op['mode']
        lo, hi = b[0], b[-1]
        c = self.cfg
        nbins = 2 * int(round((c['minBins'] + op['binsf'] * (c['maxBins'] - c['minBins'])) / 2))
        if mode == 'coarser':
            nbins = c['minBins']
        elif mode == 'finer':
            nbins = c['maxBins']
        elif mode == 'shift_lo':
            lo = b[0] * (0.3 + op['f'])
        elif mode == 'grow':
            hi = b[-1] * (1 + 2 * op['f'])
        elif mode == 'shrink_to_populated':
            if len(pop):
                hi = b[pop[-1] + 1] * (1 + 0.2 * op['f'])
            else:
                hi = b[0] + (b[-1] - b[0]) * op['f']
        extreme = 'extreme_bins' in op
        if extreme:
            nbins = op['extreme_bins']
        args = (lo, hi, nbins) if op['explicit_bins'] or extreme else (lo, hi)
        if len(args) == 2:
            nbins = before['bins']
        oldV, _ = ref_moment(before['PSD'], before['size'], 3)
        p.changeSizeClasses(*args)
        self.sig.add('remesh:' + mode + (':x' if extreme else ''))
        self.cnt['remesh'] += 1
        # range/class count as requested
        emax = max(10 * lo, hi)
        if p.bins != nbins or not close(p.min, lo, 1e-15) or not close(p.max, emax, 1e-15):
            self.F.add('C08.remesh_grid', f'op {k}: changeSizeClasses({lo!r},{hi!r},{nbins}) gave min={p.min!r} max={p.max!r} bins={p.bins}', op='remesh')
            return
        self._check_remesh_volume(k, before, 'remesh', extreme)

    def _check_remesh_volume(self, k, before, opname, extreme=False):
        p = self.pbm
        pop = np.nonzero(before['PSD'] > 0)[0]
        if len(pop) == 0:
            if np.any(np.asarray(p.PSD) != 0):
                self.F.add('C08.remesh_volume', f'op {k}: re-meshing an empty distribution created particles', op=opname)
            return
        nb = np.asarray(p.PSDbounds)
        covered = nb[0] <= before['bounds'][pop[0]] * (1 + 1e-12) and nb[-1] >= before['bounds'][pop[-1] + 1] * (1 - 1e-12)
        oldV, _ = ref_moment(before['PSD'], before['size'], 3)
        newV, _ = ref_moment(np.asarray(p.PSD, dtype=float), np.asarray(p.PSDsize, dtype=float), 3)
        if covered:
            self.cnt['remesh_covered'] += 1
            if not close(oldV, newV, 1e-11):
                lost_all = bool(newV == 0)
                coarsen = bool((nb[1] - nb[0]) > (before['bounds'][1] - before['bounds'][0]))
                self.F.add('C08.remesh_volume', f'op {k} ({opname}): third moment {oldV!r} -> {newV!r} although the new grid [{nb[0]:.3e},{nb[-1]:.3e}] covers the populated range '
                           f'[{before["bounds"][pop[0]]:.3e},{before["bounds"][pop[-1] + 1]:.3e}] ({before["bins"]} -> {p.bins} classes, {len(pop)} populated)',
                           op=opname, lost_all=lost_all, coarsen=coarsen)
        else:
            self.cnt['remesh_uncovered'] += 1

    def op_adjust(self, k, op):
        p = self.pbm
        c = self.cfg
        # admissibility: the internal thresholds index PSDsize[minBins/2]
        if p.bins <= c['minBins'] // 2:
            self.cnt['skipped_inadmissible'] += 1
            return
        before = self.snapshot()
        change, newIdx = p.adjustSizeClassesEuler(op['flag'])
        self.cnt['adjust'] += 1
        if self.adaptive and p.bins > c['maxBins']:
            self.F.add('C08.adjust_maxbins', f'op {k}: adaptive adjustment left {p.bins} classes, configured maximum {c["maxBins"]}', op='adjust')
        changed_grid = p.bins != before['bins'] or not np.array_equal(np.asarray(p.PSDbounds), before['bounds'])
        if bool(change) != bool(changed_grid):
            self.F.add('C08.adjust_flag', f'op {k}: adjustSizeClassesEuler returned change={change} but grid changed={changed_grid}', op='adjust')
        if change:
            if newIdx is not None:
                self.sig.add('adj:extend')
                self.cnt['adjust_extend'] += 1
                if newIdx != before['bins']:
                    self.F.add('C08.adjust_flag', f'op {k}: reported first new class {newIdx}, previous class count {before["bins"]}', op='adjust')
                self._check_extend(k, before, p.bins - before['bins'], 'adjust')
            else:
                self.sig.add('adj:remesh' + (':fine' if p.bins == c['maxBins'] else ':coarse'))
                self.cnt['adjust_remesh'] += 1
                self._check_remesh_volume(k, before, 'adjust')
        else:
            if not np.array_equal(np.asarray(p.PSD), before['PSD']):
                self.F.add('C08.adjust_flag', f'op {k}: no change reported but populations differ', op='adjust')

    def op_adaptive(self, k, op):
        self.pbm.setAdaptiveBinSize(op['on'])
        self.adaptive = op['on']

    def op_backup(self, k, op):
        self.pbm.createBackup()
        self.backup = self.snapshot()
        self.backup['since'] = []
        self.sig.add('backup')

    def op_revert(self, k, op):
        if self.backup is None:
            self.cnt['skipped_inadmissible'] += 1     # revert without a backup: precondition breach
            return
        self.pbm.revert()
        p = self.pbm
        bk = self.backup
        self.cnt['revert'] += 1
        self.sig.add('revert')
        same = (len(p.PSD) == len(bk['PSD']) and np.array_equal(np.asarray(p.PSD), bk['PSD']) and
                len(p.PSDbounds) == len(bk['bounds']) and np.array_equal(np.asarray(p.PSDbounds), bk['bounds']) and
                p.bins == bk['bins'] and p.min == bk['min'] and p.max == bk['max'])
        if not same:
            self.F.add('C08.revert', f'op {k}: revert did not restore what the latest createBackup stored '
                       f'(bins {p.bins} vs {bk["bins"]}, bounds[:2]={np.asarray(p.PSDbounds)[:2]} vs {bk["bounds"][:2]}); grid ops since backup: {bk["since"]}',
                       op='revert', since_grid_op=bool(bk['since']))

    def op_reset(self, k, op):
        self.pbm.reset()
        self.sig.add('reset')
        p = self.pbm
        c = self.cfg
        emax = max(10 * c['cMin'], c['cMax'])
        if p.bins != c['bins'] or p.min != c['cMin'] or p.max != emax or np.any(np.asarray(p.PSD) != 0):
            self.F.add('C08.reset', f'op {k}: reset gave bins={p.bins} min={p.min!r} max={p.max!r} (initial {c["bins"]}, {c["cMin"]!r}, {emax!r}) or non-empty PSD', op='reset')
        ref = np.linspace(c['cMin'], emax, c['bins'] + 1)
        if len(p.PSDbounds) == len(ref) and np.max(np.abs(np.asarray(p.PSDbounds) - ref)) > 4 * ULP * emax:
            self.F.add('C08.reset', f'op {k}: reset did not restore the initial class boundaries', op='reset')
        if self.backup is not None:
            self.backup['since'].append('reset')

    def op_reset_keep(self, k, op):
        before = self.snapshot()
        self.pbm.reset(False)
        p = self.pbm
        if p.bins != before['bins'] or p.min != before['min'] or p.max != before['max'] or np.any(np.asarray(p.PSD) != 0):
            self.F.add('C08.reset', f'op {k}: reset(False) changed the grid description or left particles', op='reset_keep')
        if self.backup is not None:
            self.backup['since'].append('reset_keep')

    def op_record(self, k, op):
        self.pbm.enableRecording()

    def op_load_recorded(self, k, op):
        p = self.pbm
        rt = None if p._recordedTime is None else np.asarray(p._recordedTime, dtype=float)
        if rt is None or len(rt) == 0:
            return
        lo, hi = float(rt[0]), float(rt[-1])
        t = lo + op['frac'] * (hi - lo) if hi > lo else lo
        if op.get('snap') and len(rt) > 1:
            t = float(rt[int(round(min(max(op['frac'], 0.0), 1.0) * (len(rt) - 1)))])     # exactly on a recorded time
        p.setPSDtoRecordedTime(t)
        self.sig.add('load_recorded')
        # loading exactly a recorded time (or outside the span) must give exactly that record
        idx = None
        if t <= lo:
            idx = 0
        elif t >= hi:
            idx = len(rt) - 1
        if idx is not None:
            rb = np.asarray(p._recordedBins[idx], dtype=float)
            rp = np.asarray(p._recordedPSD[idx], dtype=float)
            # recorded rows are zero-padded to a common length; the row written when recording was switched on is all zeros and stands
            # for the initial, empty grid
            nz = int(np.count_nonzero(rb))
            if nz == 0:
                c = self.cfg
                want_b = np.linspace(c['cMin'], max(10 * c['cMin'], c['cMax']), c['bins'] + 1)
                want_p = np.zeros(c['bins'])
            else:
                want_b, want_p = rb[:nz], rp[:nz - 1]
            if not np.array_equal(want_b, np.asarray(p.PSDbounds, dtype=float)) or not np.array_equal(want_p, np.asarray(p.PSD, dtype=float)):
                self.F.add('C08.load_recorded', f'op {k}: loading the recorded time {t!r} (record {idx} of {len(rt)}) did not restore that record', op='load_recorded')
        if self.backup is not None:
            self.backup['since'].append('load_recorded')

    def op_moments(self, k, op):
        p = self.pbm
        N = make_dist(op['dist'], p.PSDbounds)
        order = op['order']
        centres = [float(x) for x in p.PSDsize]
        w = [1.0 + 0.5 * math.sin(i) for i in range(p.bins)]
        s, cum = ref_moment(N, centres, order)
        sw_, cumw = ref_moment(N, centres, order, w)
        scale = max(abs(s), 1e-300)
        self.cnt['moment_queries'] += 1
        stored = np.array(p.PSD, copy=True)
        checks = [('MomentFromN', p.MomentFromN(N, order), s), ('WeightedMomentFromN', p.WeightedMomentFromN(N, order, np.array(w)), sw_)]
        for name, o in (('ZeroMomentFromN', 0), ('FirstMomentFromN', 1), ('SecondMomentFromN', 2), ('ThirdMomentFromN', 3)):
            checks.append((name, getattr(p, name)(N), ref_moment(N, centres, o)[0]))
        for name, got, exp in checks:
            if not close(float(got), exp, 1e-11, 1e-300):
                self.F.add('C08.moment_fn', f'op {k}: {name} on a supplied distribution returned {float(got)!r}, reference {exp!r}', op='moments', fn=name)
        for name, got, exp in (('CumulativeMomentFromN', p.CumulativeMomentFromN(N, order), cum),
                               ('CumulativeWeightedMomentFromN', p.CumulativeWeightedMomentFromN(N, order, np.array(w)), cumw)):
            got = np.asarray(got, dtype=float)
            exp = np.asarray(exp, dtype=float)
            if got.shape != exp.shape or np.max(np.abs(got - exp)) > 1e-11 * max(np.max(np.abs(exp)), 1e-300):
                self.F.add('C08.moment_fn', f'op {k}: {name} on a supplied distribution (different from the stored one) does not match the reference '
                           f'(last value {got[-1] if len(got) else None!r} vs {exp[-1] if len(exp) else None!r})', op='moments', fn=name)
        if not np.array_equal(np.asarray(p.PSD), stored):
            self.F.add('C08.moment_fn', f'op {k}: a moment query modified the stored distribution', op='moments', fn='any')

    # ---- the transport step (C07)
    def op_step(self, k, op):
        p, F = self.pbm, self.F
        nb = p.bins
        bounds = np.array(p.PSDbounds, dtype=float, copy=True)
        Nst = np.array(p.PSD, dtype=float, copy=True)
        # the rate functions take the distribution as an argument: in 30% of the steps it is a trial distribution that is NOT the stored one
        N = make_dist(op['trial'], bounds) if op.get('trial') else Nst.copy()
        if op.get('trial'):
            self.sig.add('trial_distribution')
        g = make_growth(op['g'], bounds)
        J = float(op['J'])
        kind = op['Rn']
        u = op['rnpos']
        if kind == 'inside':
            Rn = bounds[0] + u * (bounds[-1] - bounds[0]) * 0.999
        elif kind == 'edge_lo':
            Rn = bounds[0] * (1 + 1e-9 * u)
        elif kind == 'edge_hi':
            Rn = bounds[-1] * (1 - 1e-9 * (u + 0.01))
        elif kind == 'bound':
            Rn = float(bounds[min(nb - 1, int(u * nb))])
        elif kind == 'below':
            Rn = bounds[0] * (0.1 + 0.8 * u)
        elif kind == 'above':
            Rn = bounds[-1] * (1.0 + u)
        else:
            Rn = 0.0
        self.cnt['steps'] += 1
        self.cnt['rn:' + kind] = self.cnt.get('rn:' + kind, 0) + 1
        # dissolution index + step limit
        dissIdx = int(p.getDissolutionIndex(op['maxDiss'], op['minIndex']))
        if not (0 <= dissIdx <= nb):
            F.add('C07.dissolution_index', f'op {k}: dissolution index {dissIdx} outside the grid', where='getDissolutionIndex')
            dissIdx = max(0, min(nb, dissIdx))
        dtmax = 1e30
        dt_lim = float(p.getDTEuler(dtmax, g, dissIdx))
        # reference limit: 0.4 * class width / fastest |growth| over lower faces of populated classes >= dissIdx
        gm = 0.0
        for i in range(dissIdx, nb):
            if Nst[i] > 0:          # (the step limit is a function of the stored distribution)
                gm = max(gm, abs(g[i]))
        dt_ref = 0.4 * (bounds[1] - bounds[0]) / gm if gm > 0 else dtmax
        if not close(dt_lim, dt_ref, 1e-12):
            F.add('C07.dt_limit', f'op {k}: getDTEuler returned {dt_lim!r}, stated limit 0.4*dR/max|g| = {dt_ref!r}', where='getDTEuler')
        dt = min(dt_lim, 1e12) * op['dtf']
        obeys = op['dtf'] <= 1.0
        # --- getdXdtEuler vs reference faces
        Ns = N
        if op['rk4']:
            # RK4 calling pattern: derivative evaluated on stage states, correction against the original N
            rs = np.random.RandomState(op['g']['seed'] + 1)
            for _ in range(3):
                Ns = np.maximum(N * (1 + 0.2 * rs.randn(nb)), 0.0)
                p.getdXdtEuler(g, J, Rn, Ns)
            self.sig.add('rk4pattern')
        d = np.array(p.getdXdtEuler(g, J, Rn, Ns), dtype=float)
        Fref = ref_faces(bounds, g, Ns)
        kc = ref_nuc_class(bounds, Rn)
        scale = max(max(abs(x) for x in Fref), abs(J), 1e-300)
        dref = np.array([Fref[i] - Fref[i + 1] for i in range(nb)])
        if kc is not None:
            dref[kc] += J
        diff = d - dref
        in_grid = kc is not None
        if in_grid or J == 0:
            bad = np.nonzero(np.abs(diff) > 1e-12 * scale)[0]
            if len(bad):
                i = int(bad[0])
                F.add('C07.transport', f'op {k}: dN/dt of class {i} is {d[i]!r}, upwind reference {dref[i]!r} (g faces {g[i]!r},{g[i + 1]!r}; nucleation class {kc})', where='getdXdtEuler')
            tot = float(np.sum(d))
            totref = (J if in_grid else 0.0) + Fref[0] - Fref[nb]
            if abs(tot - totref) > 1e-9 * max(sum(abs(x) for x in Fref), abs(J), 1e-300):
                F.add('C07.sum_rule', f'op {k}: sum of dN/dt = {tot!r}, nucleation + end fluxes = {totref!r}', where='getdXdtEuler')
        else:
            # nucleation radius outside the grid with a non-zero rate: no class contains it
            extra = np.nonzero(np.abs(diff) > 1e-12 * scale)[0]
            if len(extra):
                i = int(extra[0])
                F.add('C07.nucleus_outside_grid', f'op {k}: nucleation radius {Rn!r} lies outside the grid [{bounds[0]!r},{bounds[-1]!r}] but rate {J!r} was deposited in class {i} of {nb}',
                      where='getdXdtEuler', rn_kind=('zero' if Rn == 0 else 'below' if Rn < bounds[0] else 'above'))
        # --- correction
        psd_before = N.copy()
        dc = np.array(p.correctdXdtEuler(dt, g, J, Rn, N), dtype=float)
        Fc = np.array(p._netFlux, dtype=float)
        dcref = Fc[:-1] - Fc[1:]
        if kc is not None:
            dcref[kc] += J
        if in_grid or J == 0:
            if np.max(np.abs(dc - dcref)) > 1e-12 * max(np.max(np.abs(Fc)), abs(J), 1e-300):
                F.add('C07.corrected_balance', f'op {k}: corrected dN/dt is not the difference of the corrected face fluxes plus nucleation', where='correctdXdtEuler')
        for i in range(nb + 1):
            f0, fc = Fref[i], Fc[i]
            if fc != 0 and (f0 == 0 or (fc > 0) != (f0 > 0)):
                F.add('C07.limiter_direction', f'op {k}: face {i} flux {f0!r} became {fc!r} after the correction (reversed or created)', where='correctdXdtEuler'); break
            if abs(fc) > abs(f0) * (1 + 1e-12):
                F.add('C07.limiter_direction', f'op {k}: face {i} flux magnitude grew from {f0!r} to {fc!r} in the correction', where='correctdXdtEuler'); break
            up = N[i - 1] if fc > 0 else (N[i] if fc < 0 and i < nb else 0.0)
            if abs(fc) * dt > up * (1 + 1e-12) + 1e-300:
                F.add('C07.face_limit', f'op {k}: after the correction face {i} carries {abs(fc) * dt!r} particles in dt={dt!r} out of a class holding {up!r}', where='correctdXdtEuler'); break
        if not np.array_equal(N, psd_before):
            F.add('C07.input_mutated', f'op {k}: correctdXdtEuler modified the distribution it was given', where='correctdXdtEuler')
        Nnew = N + dc * dt
        # classes obeying the step limit on both faces never go negative.  This follows from the upwind formula only when the
        # flux was computed from the distribution it is corrected against (Euler pattern); in the RK4 calling pattern the
        # last-stage flux comes from a stage state, so only the per-face limit (checked above) is implied.
        for i in (range(nb) if not op['rk4'] else ()):
            if N[i] > 0 and abs(g[i]) * dt <= 0.4 * (bounds[i + 1] - bounds[i]) * (1 + 1e-12) and abs(g[i + 1]) * dt <= 0.4 * (bounds[i + 1] - bounds[i]) * (1 + 1e-12):
                self.cnt['classes_obeying_limit'] += 1
                if Nnew[i] < -1e-12 * N[i]:
                    F.add('C07.negative', f'op {k}: class {i} obeys the step limit (|g|dt <= 0.4 dR on both faces) but went from {N[i]!r} to {Nnew[i]!r}', where='step')
                    break
        if obeys:
            self.sig.add('limit_obeyed')
        else:
            self.sig.add('limit_exceeded')
        self.sig.add('g:' + op['g']['kind'])
        if not in_grid:
            self.sig.add('rn_out')
        Nn = np.maximum(Nnew, 0.0)
        self.t += dt if math.isfinite(dt) else 1.0
        p.UpdatePBMEuler(self.t, Nn)
        if op['adjust'] and p.bins > self.cfg['minBins'] // 2:
            before = self.snapshot()
            change, newIdx = p.adjustSizeClassesEuler(bool(np.all(g < 0)))
            if change and self.backup is not None:
                self.backup['since'].append('adjust')
            if self.adaptive and p.bins > self.cfg['maxBins']:
                F.add('C08.adjust_maxbins', f'op {k}: adaptive adjustment after a step left {p.bins} classes, configured maximum {self.cfg["maxBins"]}', op='adjust')


def execute(rec, focus):
    F = core.Failures(cap=16)
    D = core.Digest()
    cnt = {k: 0 for k in ('ops', 'steps', 'remesh', 'remesh_covered', 'remesh_uncovered', 'adjust', 'adjust_extend', 'adjust_remesh',
                          'revert', 'moment_queries', 'skipped_inadmissible', 'classes_obeying_limit')}
    m = Machine(rec, F, D, cnt)
    # book-keeping of grid ops since the latest backup (for the known-finding context)
    orig_change = m.pbm.changeSizeClasses

    def change_tap(*a, **kw):
        if m.backup is not None:
            m.backup['since'].append('remesh')
        return orig_change(*a, **kw)
    m.pbm.changeSizeClasses = change_tap
    m.run()
    pref = focus + '.'
    fl = [f for f in F.items if f['check'].startswith(pref)]
    nontrivial = cnt['ops'] >= 1 and ('pop' in m.sig or cnt['steps'] > 0)
    if focus == 'C07':
        nontrivial = cnt['steps'] > 0
    sig = ','.join(sorted(m.sig))
    return core.result(fl, sig=sig, nontrivial=nontrivial, counters=cnt, digest=D.hex())


def shrink_candidates(rec):
    for c in core.ddmin_candidates(rec['ops']):
        r = copy.deepcopy(rec); r['ops'] = c; yield r
    for i, op in enumerate(rec['ops']):
        if op['op'] == 'step':
            for key, val in (('rk4', False), ('adjust', False), ('J', 0.0), ('dtf', 1.0), ('Rn', 'inside'), ('maxDiss', 1e-3), ('minIndex', 0)):
                if op[key] != val:
                    r = copy.deepcopy(rec); r['ops'][i][key] = val; yield r
            if op['g']['kind'] != 'physical':
                r = copy.deepcopy(rec); r['ops'][i]['g']['kind'] = 'physical'; yield r
        if 'dist' in op and op['dist']['kind'] not in ('single',):
            r = copy.deepcopy(rec); r['ops'][i]['dist']['kind'] = 'single'; yield r
        if 'dist' in op and op['dist']['amp'] != 1000.0:
            r = copy.deepcopy(rec); r['ops'][i]['dist']['amp'] = 1000.0; yield r
    c = rec['cfg']
    canon = {'cMin': 1e-10, 'cMax': 1e-9, 'bins': 20, 'minBins': 10, 'maxBins': 40}
    if c != canon:
        r = copy.deepcopy(rec); r['cfg'] = dict(canon); yield r
    if rec['adaptive'] is False:
        r = copy.deepcopy(rec); r['adaptive'] = True; yield r
