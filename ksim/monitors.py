"""Per-step monitors for precipitation worlds (attached through the observer in the coupling slot
and through read-only taps).  Each monitor adds failures with its own property prefix."""
import math
import numpy as np
from ksim import refs

ULP = np.finfo(float).eps


def relclose(a, b, rtol, atol=0.0):
    return abs(a - b) <= atol + rtol * max(abs(a), abs(b))


class MassBalanceTap:
    """Captures, for every _calcMassBalance evaluation, deep copies of its inputs and of the row it
    produced.  The last capture before an observer call is the evaluation that was recorded."""

    def __init__(self, m, backend=None):
        self.m = m
        self.last = None
        self.count = 0
        orig = m._calcMassBalance

        def wrapped(t, x, Y):
            cap = {'t': float(t), 'x': [np.array(xi, dtype=float, copy=True) for xi in x],
                   'size': [np.array(b.PSDsize, dtype=float, copy=True) for b in m.PBM],
                   'bounds': [np.array(b.PSDbounds, dtype=float, copy=True) for b in m.PBM],
                   'psd_start': [np.array(b.PSD, dtype=float, copy=True) for b in m.PBM],
                   'xbeta': [None if xb is None else np.array(xb, dtype=float, copy=True) for xb in m.PSDXbeta],
                   'fconc_prev': np.array(m.pData.fconc[m.pData.n], dtype=float, copy=True),
                   'vf_prev': np.array(m.pData.volFrac[m.pData.n], dtype=float, copy=True),
                   'comp_in': np.array(Y.composition[0], dtype=float, copy=True),
                   'n': int(m.pData.n), 'backend_last': dict(backend.last) if backend is not None else {}}
            out = orig(t, x, Y)
            cap['out'] = {k: np.array(getattr(out, k)[0], dtype=float, copy=True) for k in ('composition', 'volFrac', 'fconc', 'precipitateDensity', 'Ravg', 'ARavg')}
            self.last = cap
            self.count += 1
            return out
        m._calcMassBalance = wrapped


class GridTap:
    """Event markers for grid operations of each phase's PBM (+ zeroth/third moments around a re-mesh)."""

    def __init__(self, m):
        self.m = m
        self.events = []
        self.installed = set()
        self.refresh()

    def refresh(self):
        """(re-)install on the current PBM objects (setPBMParameters / load replace them)."""
        for p, pbm in enumerate(self.m.PBM):
            if id(pbm) in self.installed:
                continue
            self.installed.add(id(pbm))
            self._install(p, pbm)

    def _install(self, p, pbm):
        oc, oa = pbm.changeSizeClasses, pbm.addSizeClasses

        def change(*a, **kw):
            n0 = float(np.sum(pbm.PSD)); v0 = float(np.sum(pbm.PSD * pbm.PSDsize ** 3)); b0 = pbm.bins
            r = oc(*a, **kw)
            self.events.append(('remesh', p, n0, float(np.sum(pbm.PSD)), v0, float(np.sum(pbm.PSD * pbm.PSDsize ** 3)), b0, pbm.bins))
            return r

        def add(*a, **kw):
            b0 = pbm.bins
            r = oa(*a, **kw)
            self.events.append(('extend', p, b0, pbm.bins))
            return r
        pbm.changeSizeClasses = change
        pbm.addSizeClasses = add

    def drain(self):
        ev, self.events = self.events, []
        return ev


class PBMStageTap:
    """Records the nucleation rate / radius handed to getdXdtEuler / correctdXdtEuler of each phase."""

    def __init__(self, m):
        self.m = m
        self.rates = [[] for _ in m.PBM]
        self.installed = set()
        self.refresh()

    def refresh(self):
        for p, pbm in enumerate(self.m.PBM):
            if id(pbm) in self.installed:
                continue
            self.installed.add(id(pbm))
            og, oc = pbm.getdXdtEuler, pbm.correctdXdtEuler

            def g(flux, nucRate, nucRadius, psd, _og=og, _p=p):
                self.rates[_p].append((float(nucRate), float(nucRadius)))
                return _og(flux, nucRate, nucRadius, psd)

            def c(dt, flux, nucRate, nucRadius, psd, _oc=oc, _p=p):
                self.rates[_p].append((float(nucRate), float(nucRadius)))
                return _oc(dt, flux, nucRate, nucRadius, psd)
            pbm.getdXdtEuler = g
            pbm.correctdXdtEuler = c

    def drain(self):
        r = self.rates
        self.rates = [[] for _ in self.m.PBM]
        return r


# =============================================================================== C01
class ConservationMonitor:
    def __init__(self, m, cfg, backend, mbtap, gridtap, F, cnt, fault_free=True):
        self.m, self.cfg, self.backend, self.tap, self.grid = m, cfg, backend, mbtap, gridtap
        self.F, self.cnt = F, cnt
        self.sig = set()
        self.VmA = refs.vm_from_spec(cfg['VmA'])[0]
        self.VmB = [refs.vm_from_spec(cfg['phase_params'][p]['VmB'])[0] for p in cfg['phases']]
        self.vf = [refs.volume_factor(cfg['phase_params'][p].get('site', 'bulk'), cfg['phase_params'][p]['gamma'], cfg.get('gbEnergy', 0.3)) for p in cfg['phases']]
        self.inf = [cfg['phase_params'][p].get('infDiff', True) for p in cfg['phases']]
        self.x0 = np.array(cfg['x0'], dtype=float)
        self.minComp = cfg.get('constraints', {}).get('minComposition', 0)
        self.minDens = cfg.get('constraints', {}).get('minNucleateDensity', 1e-10)
        self.stub = cfg['backend'].startswith('stub')
        self.last_count = 0

    def on_step(self, m):
        F, cnt = self.F, self.cnt
        pd = m.pData
        n = pd.n
        cap = self.tap.last
        if n == 1 or self.last_count == 0:
            if not np.array_equal(np.asarray(pd.composition[0], dtype=float), self.x0):
                F.add('C01.initial_row', f'pData.composition[0] = {pd.composition[0]} differs from the initial alloy composition {self.x0}', where='composition[0]')
        if cap is None or self.tap.count == self.last_count:
            F.add('C01.no_balance', f'step {n}: no mass-balance evaluation happened for this recorded step', where='postProcess')
            return
        self.last_count = self.tap.count
        nph, nel = len(m.phases), len(m.elements)
        out = cap['out']
        if not all(np.all(np.isfinite(np.asarray(out[name], dtype=float))) for name in ('composition', 'volFrac', 'fconc')) or not all(np.all(np.isfinite(np.asarray(xx, dtype=float))) for xx in cap['x']):
            # a non-finite state is a breach of C03 (well-formed runs), reported there; conservation cannot be judged on it
            cnt['nonfinite_steps'] = cnt.get('nonfinite_steps', 0) + 1
            return
        # ---- item 2: the recorded row is that evaluation
        for name in ('composition', 'volFrac', 'fconc'):
            if not np.array_equal(np.asarray(getattr(pd, name)[n], dtype=float), out[name]):
                F.add('C01.recorded_row', f'step {n}: recorded {name} {np.asarray(getattr(pd, name)[n])} is not the value of the last mass-balance evaluation {out[name]}', attr=name)
        if cap['t'] != float(pd.time[n]):
            F.add('C01.recorded_row', f'step {n}: last mass balance was evaluated at t={cap["t"]!r}, recorded time {pd.time[n]!r}', attr='time')
        # ---- item 1: reference balance from the captured inputs
        fv_ref = np.zeros(nph)
        fc_ref = np.zeros((nph, nel))
        active = []
        for p in range(nph):
            x, R = cap['x'][p], cap['size'][p]
            ratio = self.VmA / self.VmB[p]
            pref = ratio * self.vf[p]
            m0 = m3 = 0.0
            for i in range(len(x)):
                m0 += x[i]
                m3 += x[i] * R[i] ** 3
            if m0 < self.minDens:
                continue
            active.append(p)
            fv = min(pref * m3, 1.0)
            if cap['vf_prev'][p] == 1:
                fv = 1.0
            fv_ref[p] = fv
            xb = cap['xbeta'][p]
            # ---- item 3: inputs are the right ones
            if xb is None or len(xb) != len(x) + 1:
                F.add('C01.stale_xbeta', f'step {n}: phase {p} precipitate-composition table has {None if xb is None else len(xb)} entries, grid has {len(x) + 1} class boundaries', why='length')
                continue
            for e in range(nel):
                if self.inf[p]:
                    s = 0.0
                    for i in range(len(x)):
                        s += x[i] * R[i] ** 3 * 0.5 * (xb[i, e] + xb[i + 1, e])
                    fc_ref[p, e] = pref * s
                else:
                    s = 0.0
                    for i in range(len(x)):
                        s += R[i] ** 3 * (x[i] - cap['psd_start'][p][i]) * 0.5 * (xb[i, e] + xb[i + 1, e])
                    fc_ref[p, e] = cap['fconc_prev'][p, e] + pref * s
            self._freshness(n, p, cap, xb)
        tot_fv = float(np.sum(fv_ref))
        clamp = False
        if tot_fv < 1:
            xm = (self.x0 - np.sum(fc_ref, axis=0)) / (1 - tot_fv)
            if np.any(xm < 0):
                clamp = True
                xm = np.where(xm < 0, self.minComp, xm)
        else:
            xm = cap['comp_in']
        if clamp:
            cnt['clamp_active'] += 1
            self.sig.add('clamp')
        scale_fv = max(np.max(np.abs(fv_ref)), 1e-300)
        for p in range(nph):
            if not relclose(out['volFrac'][p], fv_ref[p], 1e-10, 1e-300):
                F.add('C01.reference_balance', f'step {n}: recorded volume fraction of phase {p} = {out["volFrac"][p]!r}, reference (Vm_a/Vm_b)*volumeFactor*M3 = {fv_ref[p]!r}', term='volFrac')
            for e in range(nel):
                if not relclose(out['fconc'][p, e], fc_ref[p, e], 1e-10, 1e-18 * max(1.0, abs(fc_ref[p, e]))):
                    F.add('C01.reference_balance', f'step {n}: recorded precipitate solute content fconc[{p},{e}] = {out["fconc"][p, e]!r}, reference {fc_ref[p, e]!r}', term='fconc')
        # (x0 - sum fconc)/(1 - sum fv): dividing by a small remaining matrix fraction amplifies the rounding of the numerator and of sum fv
        amp = 1.0 / max(1.0 - tot_fv, 1e-12) if tot_fv < 1 else 1.0
        for e in range(nel):
            if not relclose(out['composition'][e], xm[e], 1e-10 * max(1.0, amp), 1e-16 * max(1.0, amp)):
                F.add('C01.reference_balance', f'step {n}: recorded matrix composition[{e}] = {out["composition"][e]!r}, reference (x0 - sum fconc)/(1 - sum fv) = {xm[e]!r} (clamp active: {clamp})', term='composition')
        # ---- the identity itself (what the property states), on the recorded row
        if tot_fv < 1 and not clamp:
            for e in range(nel):
                lhs = self.x0[e]
                rhs = (1 - float(np.sum(out['volFrac']))) * out['composition'][e] + float(np.sum(out['fconc'][:, e]))
                if abs(lhs - rhs) > 1e-12 * max(abs(lhs), 1e-300) + 4 * ULP:
                    F.add('C01.identity', f'step {n}: x0[{e}]={lhs!r} but (1-fv)*x + fconc = {rhs!r}', term='identity')
        cnt['balance_checks'] += 1
        if active:
            self.sig.add('precipitates')
            cnt['steps_with_precipitates'] += 1
        # ---- item 4: end-to-end against the live state (after the distribution update)
        events = self.grid.drain() if self.grid is not None else []
        for ev in events:
            self.sig.add(ev[0])
            cnt['grid_' + ev[0]] = cnt.get('grid_' + ev[0], 0) + 1
        if tot_fv < 1 and not clamp:
            self._live_identity(n, m, cap, out, events)

    def _freshness(self, n, p, cap, xb):
        """PSDXbeta must be the composition the backend returned for the *current* class boundaries."""
        F = self.F
        m = self.m
        ph = self.cfg['phases'][p]
        nel = len(m.elements)
        if nel > 1:
            last = cap['backend_last'].get(('getGrowthAndInterfacialComposition', ph))
            if last is None:
                return
            args, res = last
            Rq = np.atleast_1d(args[3])
            if len(Rq) != len(cap['bounds'][p]) or not np.array_equal(Rq, cap['bounds'][p]):
                self.F.add('C01.stale_xbeta', f'step {n}: phase {p}: the latest interfacial-composition query was made for other radii than the current class boundaries '
                           f'({len(Rq)} vs {len(cap["bounds"][p])} boundaries)', why='radii')
                return
            cb = np.atleast_2d(res[2])
            if cb.shape == xb.shape and not np.array_equal(cb, xb):
                # zeros are the documented reset after an unstable/failed evaluation
                if np.any(xb != 0):
                    self.F.add('C01.stale_xbeta', f'step {n}: phase {p}: precipitate compositions in use differ from the latest backend answer', why='values')
            self.cnt['freshness_checks'] += 1
            if self.stub:
                want = np.asarray(self.cfg['phase_params'][ph]['thermo']['xb'], dtype=float)
                if np.any(xb != 0) and np.max(np.abs(xb - want[None, :])) > 1e-15:
                    self.F.add('C01.stale_xbeta', f'step {n}: phase {p}: precipitate composition table {xb[0]} is not this phase\'s compound composition {want}', why='wrong_phase')
        else:
            if self.stub:
                want = float(np.squeeze(self.cfg['phase_params'][ph]['thermo']['xb']))
                col = xb[:, 0]
                if np.any(col != 0) and np.max(np.abs(col - want)) > 1e-15:
                    self.F.add('C01.stale_xbeta', f'step {n}: phase {p}: binary precipitate-composition table contains {col[np.argmax(np.abs(col - want))]!r}, this phase\'s composition is {want}', why='values')
                self.cnt['freshness_checks'] += 1

    def _live_identity(self, n, m, cap, out, events):
        nel = len(m.elements)
        fv_live = 0.0
        fc_live = np.zeros(nel)
        slack = np.zeros(nel)
        for p in range(len(m.phases)):
            if not self.inf[p]:
                return          # history-integrated content cannot be recomputed from the live state
            pbm = m.PBM[p]
            psd = np.asarray(pbm.PSD, dtype=float)
            R = np.asarray(pbm.PSDsize, dtype=float)
            xb = m.PSDXbeta[p]
            if float(np.sum(psd)) < self.minDens:
                # everything of this phase was removed (truncation / dissolution): its recorded content is the slack
                slack += np.abs(out['fconc'][p])
                continue
            if xb is None or len(xb) != len(psd) + 1:
                self.F.add('C01.stale_xbeta', f'step {n}: after the distribution update phase {p} has {len(psd)} classes but a precipitate-composition table of {None if xb is None else len(xb)} entries', why='length_live')
                return
            pref = self.VmA / self.VmB[p] * self.vf[p]
            fv_live += min(pref * float(np.sum(psd * R ** 3)), 1.0)
            xbm = 0.5 * (np.asarray(xb, dtype=float)[:-1] + np.asarray(xb, dtype=float)[1:])
            fc_live += pref * np.sum((psd * R ** 3)[:, None] * xbm, axis=0)
            if float(np.sum(cap['x'][p])) < self.minDens:
                # the step's raw distribution summed to less than the nucleate threshold (classes driven negative by an over-long explicit step
                # outweigh the rest), so the step reported "no precipitates" for this phase; the positive classes survive the removal of the
                # negative ones and are carried on: their content is the explained difference
                slack += np.abs(pref * np.sum((psd * R ** 3)[:, None] * xbm, axis=0)) * 1.000001
            regrid = any(ev[0] == 'remesh' and ev[1] == p for ev in events)
            xbmax = np.max(np.abs(xbm), axis=0) if len(xbm) else np.zeros(nel)
            if regrid or len(psd) != len(cap['x'][p]):
                if len(psd) > len(cap['x'][p]) and not regrid:
                    dif = np.abs(psd[:len(cap['x'][p])] - cap['x'][p])
                    slack += pref * float(np.sum(dif * cap['size'][p] ** 3)) * xbmax * 1.000001
                    # the table is re-queried for the extended grid at the newly recorded matrix composition
                    xb_old = cap['xbeta'][p]
                    if xb_old is not None:
                        k = len(xb_old)
                        slack += out['volFrac'][p] * np.max(np.abs(np.asarray(xb)[:k] - xb_old), axis=0)
                else:
                    # chain: M3(x) -> truncation of sub-1 classes -> [extend] -> re-mesh v0 -> v1 (preserved, C08) -> documented zeroing
                    # of classes below the stability / minimum-radius threshold on the new grid -> live.  The composition weighting
                    # changes with the grid (spread of x_beta over the table).
                    rem = [ev for ev in events if ev[0] == 'remesh' and ev[1] == p]
                    v0, v1 = rem[0][4], rem[-1][5]
                    m3x = float(np.sum(cap['x'][p] * cap['size'][p] ** 3))
                    v_live = float(np.sum(psd * R ** 3))
                    xb_old = cap['xbeta'][p]
                    spread = np.max(np.abs(xb_old), axis=0) - np.min(np.abs(xb_old), axis=0) if xb_old is not None else xbmax
                    xbm_all = np.maximum(xbmax, np.max(np.abs(xb_old), axis=0) if xb_old is not None else 0)
                    slack += pref * (abs(m3x - v0) + abs(v1 - v_live)) * xbm_all * 1.000001 + out['volFrac'][p] * (spread + 1e-9 * xbm_all) + 1e-9 * np.abs(out['fconc'][p])
            else:
                dif = np.abs(psd - cap['x'][p])
                slack += pref * float(np.sum(dif * R ** 3)) * xbmax * 1.000001
                xb_old = cap['xbeta'][p]
                if xb_old is not None and xb_old.shape == np.asarray(xb).shape:
                    slack += out['volFrac'][p] * np.max(np.abs(np.asarray(xb) - xb_old), axis=0)
        if fv_live >= 1:
            return
        x_rec = out['composition']
        resid = self.x0 - ((1 - fv_live) * x_rec + fc_live)
        # the recorded composition was computed with the pre-update fractions: account for (fv_rec - fv_live)*x
        slack = slack + abs(float(np.sum(out['volFrac'])) - fv_live) * np.abs(x_rec) + 1e-12 * np.abs(self.x0) + 1e-18
        self.cnt['live_identity_checks'] += 1
        for e in range(nel):
            if abs(resid[e]) > slack[e] * 1.01:
                self.F.add('C01.live_identity', f'step {n}: element {e}: x0 - [(1-fv)x + fconc] evaluated on the live distribution = {resid[e]!r}, explained slack {slack[e]!r}; grid events {[(ev[0], ev[1]) + tuple(ev[-2:]) for ev in events]}, fv_rec={float(np.sum(out["volFrac"]))!r} fv_live={fv_live!r}', term='live')
                break


# =============================================================================== C02
class MomentsMonitor:
    def __init__(self, m, cfg, mbtap, gridtap, stagetap, F, cnt):
        self.m, self.cfg, self.tap, self.grid, self.stage = m, cfg, mbtap, gridtap, stagetap
        self.F, self.cnt = F, cnt
        self.sig = set()
        self.VmA = refs.vm_from_spec(cfg['VmA'])[0]
        self.VmB = [refs.vm_from_spec(cfg['phase_params'][p]['VmB'])[0] for p in cfg['phases']]
        self.vf = [refs.volume_factor(cfg['phase_params'][p].get('site', 'bulk'), cfg['phase_params'][p]['gamma'], cfg.get('gbEnergy', 0.3)) for p in cfg['phases']]
        self.minDens = cfg.get('constraints', {}).get('minNucleateDensity', 1e-10)
        self.N_live_prev = None      # zeroth moment of the live distribution at the previous observer call
        self.t_prev = None
        self.rep_prev = None

    def on_step(self, m):
        F, cnt = self.F, self.cnt
        pd = m.pData
        n = pd.n
        cap = self.tap.last
        events = self.grid.drain()
        stage = self.stage.drain()
        if cap is None:
            return
        t = float(pd.time[n])
        dt = t - float(pd.time[n - 1])
        if not all(np.all(np.isfinite(np.asarray(xx, dtype=float))) for xx in cap['x']):
            # a non-finite distribution is a breach of C03 (reported there); moments cannot be judged on it
            cnt['nonfinite_steps'] = cnt.get('nonfinite_steps', 0) + 1
            return
        for p in range(len(m.phases)):
            x, R = cap['x'][p], cap['size'][p]
            m0, m1, m2, m3 = refs.moments(x, R)
            dens, ravg, vfr = float(pd.precipitateDensity[n, p]), float(pd.Ravg[n, p]), float(pd.volFrac[n, p])
            if m0 < self.minDens:
                if dens != m0 and dens != 0.0:
                    F.add('C02.density', f'step {n} phase {p}: reported density {dens!r}, zeroth moment {m0!r} (below the nucleate threshold)', stat='density')
                if ravg != 0.0 or vfr != 0.0:
                    F.add('C02.below_threshold_zero', f'step {n} phase {p}: density {m0!r} below the nucleate threshold but Ravg={ravg!r} volFrac={vfr!r} are not zero', stat='zero_rule')
            else:
                self.sig.add('populated')
                cnt['moment_checks'] += 1
                if not relclose(dens, m0, 1e-12):
                    F.add('C02.density', f'step {n} phase {p}: reported density {dens!r}, zeroth moment of the distribution {m0!r}', stat='density')
                if not relclose(ravg, m1 / m0, 1e-11):
                    F.add('C02.mean_radius', f'step {n} phase {p}: reported mean radius {ravg!r}, first/zeroth moment {m1 / m0!r}', stat='Ravg')
                want = min(self.VmA / self.VmB[p] * self.vf[p] * m3, 1.0)
                if cap['vf_prev'][p] == 1:
                    want = 1.0
                if not relclose(vfr, want, 1e-10):
                    F.add('C02.volume_fraction', f'step {n} phase {p}: reported volume fraction {vfr!r}, scaled third moment {want!r}', stat='volFrac')
            # ---- recorded PSD history (when recording is on): the recorded row is x with sub-1 classes removed
            pbm = m.PBM[p]
            if pbm._record and pbm._recordedTime is not None:
                rt = np.asarray(pbm._recordedTime)
                reset_now = any(ev[0] == 'reset' and ev[1] == p for ev in events)
                if len(rt) and rt[-1] == t:
                    row = np.asarray(pbm._recordedPSD[-1], dtype=float)
                    want = np.where(x < 1, 0.0, x)
                    got = row[:len(want)]
                    cnt['recorded_rows'] += 1
                    if len(row) < len(want) or not np.array_equal(got, want) or np.any(row[len(want):] != 0):
                        F.add('C02.recorded_psd', f'step {n} phase {p}: recorded PSD row is not the step\'s distribution with classes below 1 removed', stat='recorded')
                    rb = np.asarray(pbm._recordedBins[-1], dtype=float)
                    if not np.array_equal(rb[:len(cap['bounds'][p])], cap['bounds'][p]):
                        F.add('C02.recorded_psd', f'step {n} phase {p}: recorded class boundaries are not the grid the distribution lives on', stat='recorded_bins')
                    k_trunc = int(np.sum((x > 0) & (x < 1)))
                    # a class driven negative by an over-long explicit step also "holds less than one particle" and is removed by the same rule
                    neg = float(np.sum(np.abs(x[x < 0])))
                    if neg > 0:
                        cnt['negative_class_removed'] = cnt.get('negative_class_removed', 0) + 1
                    if abs(float(np.sum(row)) - dens) > k_trunc + neg * (1 + 1e-12) + 64 * ULP * max(dens, 1.0) * len(x) and m0 >= self.minDens:
                        F.add('C02.recorded_vs_reported', f'step {n} phase {p}: zeroth moment of the recorded PSD {float(np.sum(row))!r} differs from the reported density {dens!r} by more than the {k_trunc} truncated classes', stat='recorded')
                    if len(pbm._recordedPSD) != len(rt) or len(pbm._recordedBins) != len(rt):
                        F.add('C02.recorded_psd', f'step {n} phase {p}: recorded time/PSD/bins histories have different lengths', stat='recorded_len')
                else:
                    # the documented reset path of an unstable phase (negative driving force, no equilibrium) does not record a row;
                    # C02 does not demand one (the distribution is empty) -> informational counter only
                    cnt['recording_skipped_on_phase_reset'] = cnt.get('recording_skipped_on_phase_reset', 0) + 1
                    if m0 >= self.minDens and float(np.sum(np.where(x < 1, 0.0, x))) > 0:
                        F.add('C02.recording_skipped', f'step {n} phase {p}: the step\'s distribution holds {m0!r} particles but no PSD row was recorded for t={t!r} (last recorded time {rt[-1] if len(rt) else None!r})', stat='skipped')
            # ---- number budget of the step
            rates = [r for r, _ in stage[p]] if p < len(stage) else []
            Jmax = max(rates) if rates else 0.0
            if self.N_live_prev is not None and p < len(self.N_live_prev):
                N_start = self.N_live_prev[p]
                N_new = m0
                allow = Jmax * dt * (1 + 1e-9) + 64 * ULP * max(N_start, 1.0) * len(x)
                cnt['budget_checks'] += 1
                if N_new - N_start > allow:
                    F.add('C02.number_budget', f'step {n} phase {p}: number density rose from {N_start!r} to {N_new!r} (+{N_new - N_start!r}) in dt={dt!r} with largest stage nucleation rate {Jmax!r} (budget {Jmax * dt!r})',
                          stat='budget', zero_rate=bool(Jmax == 0))
                if Jmax == 0:
                    self.sig.add('zero_rate_step')
                elif N_new > N_start:
                    self.sig.add('nucleating_step')
                if N_new < N_start * (1 - 1e-9):
                    self.sig.add('dissolving_step')
        # ---- re-mesh contribution to the reported density between consecutive steps
        for ev in events:
            if ev[0] == 'remesh':
                _, p, n0, n1, v0, v1, b0, b1 = ev
                self.sig.add('remesh')
                cnt['remesh_events'] += 1
                if n1 - n0 > 1e-9 * max(n0, 1.0) + 1.0:
                    F.add('C02.remesh_number_increase', f'after step {n} phase {p}: re-mesh {b0}->{b1} classes raised the number density from {n0!r} to {n1!r} with no nucleation involved',
                          stat='remesh', where='changeSizeClasses')
            elif ev[0] == 'extend':
                self.sig.add('extend')
        # ---- a grid extension only appends empty classes: the distribution the model carries into the next step must still be the one
        # the step's statistics were taken from (re-meshes interpolate and are judged by their own clauses)
        for p in range(len(m.phases)):
            kinds = [ev[0] for ev in events if ev[1] == p]
            x = np.asarray(cap['x'][p], dtype=float)
            if 'extend' not in kinds or 'remesh' in kinds or float(np.sum(x)) < self.minDens:
                continue
            R = np.asarray(cap['size'][p], dtype=float)
            pbm = m.PBM[p]
            live, Rl = np.asarray(pbm.PSD, dtype=float), np.asarray(pbm.PSDsize, dtype=float)
            if len(live) < len(x):
                continue          # not an extension after all (reset path)
            cnt['extension_checks'] = cnt.get('extension_checks', 0) + 1
            l0, l1, _, l3 = refs.moments(live, Rl)
            ok = False
            for ref in (x, np.where(x < 1, 0.0, x)):
                r0, r1, _, r3 = refs.moments(ref, R)
                if r0 > 0 and l0 > 0 and relclose(l0, r0, 1e-9) and relclose(l1 / l0, r1 / r0, 1e-9) and relclose(l3, r3, 1e-9):
                    ok = True
                if r0 == 0 and l0 == 0:
                    ok = True      # every class held less than one particle and was removed
            if not ok:
                r0, r1, _, r3 = refs.moments(x, R)
                F.add('C02.extension_keeps_distribution', f'after step {n} phase {p}: grid extended {len(x)}->{len(live)} classes; the carried distribution has N={l0!r} Ravg={l1 / l0 if l0 else 0.0!r} m3={l3!r} '
                      f'but the step reported N={r0!r} Ravg={r1 / r0!r} m3={r3!r}', stat='extension')
        self.N_live_prev = [float(np.sum(np.asarray(b.PSD, dtype=float))) for b in m.PBM]


# =============================================================================== C12 (in-run clause)
class GrowthSignMonitor:
    def __init__(self, m, cfg, F, cnt):
        self.m, self.cfg, self.F, self.cnt = m, cfg, F, cnt
        self.sig = set()
        self.stub = cfg['backend'].startswith('stub')

    def delta(self, m, n, p):
        """Relative half-width of the band around R* inside which the sign is not asserted."""
        if self.stub:
            return 1e-6
        dG = float(m.pData.drivingForce[n, p]) * m.precipitateParameters[p].volume.Vm    # J/mol
        off = 2.0 / max(dG, 1e-300)        # documented 1 J/mol offset (twice, to be safe)
        return min(0.5, 0.02 + off * 2)

    def on_step(self, m):
        pd = m.pData
        n = pd.n
        for p in range(len(m.phases)):
            dG = float(pd.drivingForce[n, p])
            Rc = float(pd.Rcrit[n, p])
            pp = m.precipitateParameters[p]
            if not (dG > 0) or Rc <= 0:
                continue
            if Rc <= pp.Rmin * (1 + 1e-12):
                self.cnt['rcrit_clamped'] += 1
                continue
            g = np.asarray(m.growth[p], dtype=float)
            R = np.asarray(m.PBM[p].PSDbounds, dtype=float)
            if len(g) != len(R) or not np.any(g != 0):
                continue
            d = self.delta(m, n, p)
            lo_cut = max(float(R[min(int(m.RdrivingForceIndex[p]) + 1, len(R) - 1)]), 0.0) if m.numberOfElements == 1 else 0.0
            self.cnt['sign_checks'] += 1
            above = R > Rc * (1 + d)
            below = (R < Rc * (1 - d)) & (R > lo_cut)
            if np.any(above):
                self.sig.add('above')
            if np.any(below):
                self.sig.add('below')
            bad_a = above & ~(g > 0)
            bad_b = below & ~(g < 0)
            if np.any(bad_a):
                i = int(np.argmax(bad_a))
                self.F.add('C12.growth_sign', f'step {n} phase {p}: class boundary R={R[i]!r} is above the critical radius {Rc!r} but its growth rate is {g[i]!r}', side='above', ar_fn=bool(self.cfg['phase_params'][self.cfg['phases'][p]].get('ar') in ('fn', 'fnb')))
            if np.any(bad_b):
                i = int(np.argmax(bad_b))
                self.F.add('C12.growth_sign', f'step {n} phase {p}: class boundary R={R[i]!r} is below the critical radius {Rc!r} but its growth rate is {g[i]!r}', side='below', ar_fn=bool(self.cfg['phase_params'][self.cfg['phases'][p]].get('ar') in ('fn', 'fnb')))
