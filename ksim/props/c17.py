"""C17 - homogenized mobilities respect classical bounds and address phases by name.

History / caching clauses (simulation proper): seeded sequences of
computeHomogenizationFunction(therm, x, T, params, hashTable) calls on the real Fe-Cr-Ni database
(FCC_A1, BCC_A2; mobility defined for both phases or for FCC only) over points in single- and
two-phase regions, in varying order, with repeats, cache on/off, the five averaging rules, labyrinth
factors and the post-process modes none / predefined(name) / majority / exclude([names]) - including
a change of mode between evaluations that share one hash table.  Oracle: a by-name reference
post-processing of a cache-less fresh computeMobility evaluation + classical bound formulas;
idempotence; cached arrays unchanged.
Bounds as oracles on synthetic fully-defined sets (1-4 phases, fractions on the simplex incl. vertices).
"""
import math, copy, itertools
import numpy as np
from ksim import core

ID = 'C17'
LEVEL = 'exploration'
RULE = ('Runs are (a) evaluation histories on the real Fe-Cr-Ni database: 4-12 evaluations over 3-6 seeded points (single-phase FCC, single-phase BCC, two-phase), random order with repeats, '
        'rule and post-process mode drawn per evaluation (mode changes while sharing one hash table), cache on/off/cleared; (b) synthetic sets: 20-60 seeded (mobility, fraction) sets with 1-4 phases, '
        'mobilities over up to six decades, fractions incl. simplex vertices and zeros, all five rules, permutations. Mobility variants: both phases, FCC only, BCC only; exclude lists name unstable / unknown phases before and after the stable one. Non-trivial = at least 4 compared evaluations incl. a two-phase point (a), at least 20 sets (b); '
        'distinct = distinct record digest; signature = (kind, modes used, regions visited, cache use).')
ASSUMPTIONS = ['Bounds are asserted for fully defined mobility sets only (the property says "defined phase mobilities"), at 1e-6 relative for spreads up to six decades; for sets with undefined (-1) entries only '
               'absence of exceptions, idempotence and permutation invariance are asserted.',
               'predefined(name) is only compared at points where the named phase is stable (documented precondition).',
               'Mobility "defined for FCC only" is produced by removing the BCC_A2 mobility callable from the thermodynamics object (equivalent to a database without BCC mobility parameters).']
COMPONENTS = {'real': ['kawin.diffusion.HomogenizationParameters (rules, post-processing, computeHomogenizationFunction)', 'kawin.diffusion.DiffusionParameters (_computeSingleMobility, computeMobility, HashTable)',
                       'kawin.thermo.GeneralThermodynamics + pycalphad on the shipped Fe-Cr-Ni database'], 'stub': ['synthetic (mobility, fraction) sets for the bound oracles']}

_TH = {}
RULES = ['wiener upper', 'wiener lower', 'hashin upper', 'hashin lower', 'lab']


def plan(tier):
    if tier == 'quick':
        return dict(runs=128 + 1000, batch=4, hard_timeout=900, soft_timeout=400)
    return dict(runs=2000 + 30000, batch=20, hard_timeout=2400, soft_timeout=900)


def generate(rng, tier, index):
    nreal = 128 if tier == 'quick' else 2000
    if index < nreal:
        pts = []
        for _ in range(rng.randint(3, 6)):
            r = rng.random()
            if r < 0.3:      # FCC region (high Ni)
                x = [round(rng.uniform(0.1, 0.2), 4), round(rng.uniform(0.2, 0.35), 4)]
            elif r < 0.55:   # BCC region (high Cr, low Ni)
                x = [round(rng.uniform(0.3, 0.5), 4), round(rng.uniform(0.005, 0.03), 4)]
            else:            # two-phase
                x = [round(rng.uniform(0.2, 0.3), 4), round(rng.uniform(0.04, 0.1), 4)]
            pts.append({'x': x, 'T': rng.choice([1273.0, 1373.0, 1173.0])})
        evals = []
        for _ in range(rng.randint(4, 12)):
            mode = rng.choice(['none', 'none', 'majority', 'predefined', 'exclude', 'exclude'])
            args = None
            if mode == 'predefined':
                args = rng.choice(['FCC_A1', 'BCC_A2'])
            elif mode == 'exclude':
                # (lists may name phases that are not stable at the point - or not in the system at all - before or after the stable ones)
                args = rng.choice([['BCC_A2'], ['FCC_A1'], ['BCC_A2'], ['SIGMA', 'BCC_A2'], ['BCC_A2', 'SIGMA'], ['SIGMA', 'FCC_A1'], ['LIQUID', 'SIGMA', 'BCC_A2']])
            evals.append({'pt': rng.randrange(len(pts)), 'rule': rng.choice(RULES), 'lab': rng.choice([1, 1.5, 2]), 'mode': mode, 'args': args, 'repeat': rng.random() < 0.4})
        return {'kind': 'real', 'mob': rng.choice(['both', 'both', 'fcc_only', 'bcc_only']), 'cache': rng.choice(['on', 'on', 'off', 'clear_midway']), 'points': pts, 'evals': evals}
    sets = []
    for _ in range(rng.randint(20, 60)):
        p = rng.randint(1, 4)
        e = rng.randint(1, 3)
        spread = rng.choice([0, 1, 3, 6])
        mob = [[10 ** (rng.uniform(-20, -20 + spread)) for _ in range(e)] for _ in range(p)]
        kind = rng.choice(['simplex', 'vertex', 'with_zero', 'simplex'])
        if kind == 'vertex' or p == 1:
            f = [0.0] * p; f[rng.randrange(p)] = 1.0
        else:
            raw = [rng.random() for _ in range(p)]
            if kind == 'with_zero':
                raw[rng.randrange(p)] = 0.0
            ssum = sum(raw) or 1.0
            f = [v / ssum for v in raw]
        undefined = []
        if rng.random() < 0.15 and p > 1:
            undefined = [rng.randrange(p)]
        sets.append({'mob': mob, 'f': f, 'undefined': undefined, 'lab': rng.choice([1, 1.3, 2])})
    return {'kind': 'synthetic', 'sets': sets}


def prepare(tier, recs):
    if any(r['kind'] == 'real' for r in recs) and not _TH:
        from kawin.thermo import GeneralThermodynamics
        from kawin.tests import datasets as ds
        for key in ('both', 'fcc_only', 'bcc_only'):
            t = GeneralThermodynamics(ds.FECRNI_DB, ['FE', 'CR', 'NI'], ['FCC_A1', 'BCC_A2'])
            if key == 'fcc_only':
                t.mobCallables['BCC_A2'] = None
            if key == 'bcc_only':
                # the phase with mobility data is then the FIRST entry of the (alphabetical) stable-phase list
                t.mobCallables['FCC_A1'] = None
            _TH[key] = t


# ----------------------------------------------------------------------------- reference rules (classical formulas)
def ref_rule(rule, M, f, lab=1.0):
    """M: (p,e) defined mobilities, f: (p,) -> (e,)"""
    M = np.asarray(M, dtype=float); f = np.asarray(f, dtype=float)
    p, e = M.shape
    out = np.zeros(e)
    for j in range(e):
        m = M[:, j]
        if rule == 'wiener upper':
            out[j] = sum(f[i] * m[i] for i in range(p))
        elif rule == 'wiener lower':
            out[j] = 1.0 / sum(f[i] / m[i] for i in range(p))
        elif rule == 'lab':
            out[j] = sum(f[i] ** lab * m[i] for i in range(p))
        else:
            ext = max(m) if rule == 'hashin upper' else min(m)
            A = sum(f[i] * (m[i] - ext) * 3 * ext / (2 * ext + m[i]) for i in range(p))
            out[j] = ext + A / (1 - A / (3 * ext))
    return out


def ref_postprocess(mode, args, mob, phases, f):
    """Post-processing by phase NAME on the per-stable-phase arrays of one point."""
    mob = np.array(mob, dtype=float, copy=True); f = np.array(f, dtype=float, copy=True)
    phases = list(phases)
    if mode == 'predefined':
        if args not in phases:
            return None
        a = phases.index(args)
        for j in range(mob.shape[1]):
            mob[mob[:, j] == -1, j] = mob[a, j]
    elif mode == 'majority':
        a = int(np.argmax(f))
        for j in range(mob.shape[1]):
            mob[mob[:, j] == -1, j] = mob[a, j]
    elif mode == 'exclude':
        for name in args:
            if name in phases:
                f[phases.index(name)] = 0
    return mob, f


def run_real(rec, F, cnt, sig):
    from kawin.diffusion.DiffusionParameters import HashTable, computeMobility
    from kawin.diffusion.HomogenizationParameters import HomogenizationParameters, computeHomogenizationFunction
    therm = _TH[rec['mob']]
    ht = HashTable() if rec['cache'] != 'off' else None
    # cache-less fresh evaluation of every point (the by-name reference works on these)
    fresh = {}
    for i, pt in enumerate(rec['points']):
        md = computeMobility(therm, np.array(pt['x'], dtype=float), pt['T'], None)
        fresh[i] = (np.array(md.mobility[0], dtype=float, copy=True), [str(p) for p in md.phases[0]], np.array(md.phase_fractions[0], dtype=float, copy=True))
        sig.add('2ph' if len(fresh[i][1]) > 1 else 'single:' + fresh[i][1][0])
        if len(fresh[i][1]) > 1 and fresh[i][1] != [p for p in therm.phases if p in fresh[i][1]]:
            sig.add('stable_order_differs_from_db_order')
            cnt['stable_order_differs'] += 1
    two_phase_compared = 0
    for k, ev in enumerate(rec['evals']):
        if rec['cache'] == 'clear_midway' and k == len(rec['evals']) // 2 and ht is not None:
            ht.clearCache()
            cnt['fault_cache_drop'] += 1
        pt = rec['points'][ev['pt']]
        hp = HomogenizationParameters(ev['rule'], labyrinthFactor=ev['lab'], postProcessFunction=ev['mode'], postProcessArgs=ev['args'])
        x = np.array(pt['x'], dtype=float)
        cached_before = None
        if ht is not None:
            cached_before = {kk: (np.array(v.mobility, copy=True), np.array(v.phase_fractions, copy=True)) for kk, v in ht.cachedData.items()}
        try:
            with np.errstate(all='ignore'):
                val, mu = computeHomogenizationFunction(therm, x.copy(), pt['T'], hp, ht)
        except Exception as e:  # noqa
            F.add('C17.exception.' + type(e).__name__, f'evaluation {k} ({ev["rule"]}, {ev["mode"]}({ev["args"]})) at x={pt["x"]} T={pt["T"]} (stable phases {fresh[ev["pt"]][1]}) raised {type(e).__name__}: {e}', mode=ev['mode'], region='single' if len(fresh[ev['pt']][1]) == 1 else 'two')
            continue
        val = np.array(val, dtype=float, copy=True)
        sig.add(ev['mode'])
        # ---- cached arrays of EARLIER entries (and of this point) must not be modified by the evaluation
        if cached_before is not None:
            for kk, (m0, f0) in cached_before.items():
                v = ht.cachedData.get(kk)
                if v is not None and (not np.array_equal(m0, np.asarray(v.mobility)) or not np.array_equal(f0, np.asarray(v.phase_fractions))):
                    F.add('C17.cache_mutated', f'evaluation {k} ({ev["mode"]}({ev["args"]})) modified the per-phase arrays stored in the hash table', mode=ev['mode'])
                    break
        # ---- reference by phase name
        mob0, phases0, f0 = fresh[ev['pt']]
        ref = ref_postprocess(ev['mode'], ev['args'], mob0, phases0, f0)
        # a homogenized mobility is never negative (the -1 "undefined" marker must not leak out of the rules)
        if np.any(val < 0):
            F.add('C17.negative_mobility', f'evaluation {k}: {ev["rule"]} with {ev["mode"]}({ev["args"]}) at x={pt["x"]} T={pt["T"]} (stable phases {fresh[ev["pt"]][1]}) returned a negative mobility {val.tolist()}', mode=ev['mode'], region='single' if len(fresh[ev['pt']][1]) == 1 else 'two')
        if ref is not None:
            mobr, fr = ref
            # with every fraction excluded the additive rules (upper Wiener, labyrinth) give exactly 0; the others divide by the fractions
            if np.all(mobr != -1) and (np.sum(fr) > 0 or ev['rule'] in ('wiener upper', 'lab')):
                with np.errstate(all='ignore'):
                    want = ref_rule(ev['rule'], mobr, fr, ev['lab'])
                cnt['compared'] += 1
                if len(phases0) > 1:
                    two_phase_compared += 1
                if not np.all(np.isfinite(want)):
                    pass
                elif val.shape != want.shape or not np.allclose(val, want, rtol=1e-8, atol=0):
                    F.add('C17.by_name_reference', f'evaluation {k}: {ev["rule"]} with {ev["mode"]}({ev["args"]}) at x={pt["x"]} T={pt["T"]} (stable phases {phases0}, fractions {np.round(f0, 4).tolist()}) returned {val.tolist()}, '
                          f'post-processing the named phase gives {want.tolist()}', mode=ev['mode'], region='single' if len(phases0) == 1 else 'two')
        # ---- idempotence: same evaluation again gives the same answer
        if ev['repeat']:
            try:
                with np.errstate(all='ignore'):
                    val2, _ = computeHomogenizationFunction(therm, x.copy(), pt['T'], hp, ht)
                cnt['repeats'] += 1
                if not np.array_equal(np.asarray(val2, dtype=float), val, equal_nan=True):
                    F.add('C17.idempotence', f'evaluation {k}: repeating {ev["rule"]} with {ev["mode"]}({ev["args"]}) at x={pt["x"]} gives {np.asarray(val2).tolist()} instead of {val.tolist()}', mode=ev['mode'])
            except Exception as e:  # noqa
                F.add('C17.exception.' + type(e).__name__, f'repeated evaluation {k} raised {type(e).__name__}: {e}', mode=ev['mode'], region='repeat')
    return two_phase_compared


def run_synth(rec, F, cnt):
    from kawin.diffusion import HomogenizationParameters as _cls  # noqa
    import importlib
    HPm = importlib.import_module('kawin.diffusion.HomogenizationParameters')
    funcs = {'wiener upper': HPm.wienerUpper, 'wiener lower': HPm.wienerLower, 'hashin upper': HPm.hashinShtrikmanUpper, 'hashin lower': HPm.hashinShtrikmanLower, 'lab': HPm.labyrinth}
    for si, s in enumerate(rec['sets']):
        M = np.array(s['mob'], dtype=float)
        f = np.array(s['f'], dtype=float)
        for u in s['undefined']:
            M[u, :] = -1
        defined = not s['undefined']
        cnt['sets'] += 1
        res = {}
        for name, fn in funcs.items():
            try:
                with np.errstate(all='ignore'):
                    res[name] = np.array(fn(M.copy(), f.copy(), labyrinth_factor=s['lab']), dtype=float)
            except Exception as e:  # noqa
                F.add('C17.exception.' + type(e).__name__, f'set {si}: {name} raised {type(e).__name__}: {e}', mode='synthetic', region='synthetic')
        if len(res) < 5:
            continue
        # permutation invariance
        if len(f) > 1:
            perm = list(range(len(f)))[::-1]
            for name, fn in funcs.items():
                with np.errstate(all='ignore'):
                    r2 = np.array(fn(M[perm].copy(), f[perm].copy(), labyrinth_factor=s['lab']), dtype=float)
                ok = np.allclose(r2, res[name], rtol=1e-6, atol=0, equal_nan=True) or not np.all(np.isfinite(res[name]))
                if not ok:
                    F.add('C17.permutation', f'set {si}: {name} changes when the phases are listed in another order: {res[name].tolist()} vs {r2.tolist()} (M={M.tolist()}, f={f.tolist()})', rule=name, defined=bool(defined))
        if not defined:
            continue
        lo, hi = np.min(M[f > 0], axis=0) if np.any(f > 0) else np.min(M, axis=0), np.max(M[f > 0], axis=0) if np.any(f > 0) else np.max(M, axis=0)
        tol = 1e-6
        for name in ('wiener upper', 'wiener lower', 'hashin upper', 'hashin lower'):
            r = res[name]
            if np.any(r < lo * (1 - tol)) or np.any(r > hi * (1 + tol)) or not np.all(np.isfinite(r)):
                F.add('C17.bounds_minmax', f'set {si}: {name} = {r.tolist()} outside [min, max] phase mobility [{lo.tolist()}, {hi.tolist()}] (M={M.tolist()}, f={f.tolist()})', rule=name)
        wl, hl, hu, wu = res['wiener lower'], res['hashin lower'], res['hashin upper'], res['wiener upper']
        if np.any(wl > hl * (1 + tol)) or np.any(hl > hu * (1 + tol)) or np.any(hu > wu * (1 + tol)):
            F.add('C17.bounds_order', f'set {si}: expected W_low <= HS_low <= HS_up <= W_up, got {wl.tolist()}, {hl.tolist()}, {hu.tolist()}, {wu.tolist()} (M={M.tolist()}, f={f.tolist()})', rule='order')
        if np.count_nonzero(f) == 1 and abs(np.sum(f) - 1) < 1e-12:
            i = int(np.argmax(f))
            for name in funcs:
                if not np.allclose(res[name], M[i], rtol=1e-6, atol=0):
                    F.add('C17.single_phase_limit', f'set {si}: single phase present (f={f.tolist()}) but {name} = {res[name].tolist()} instead of that phase\'s mobility {M[i].tolist()}', rule=name)
        with np.errstate(all='ignore'):
            l1 = np.array(HPm.labyrinth(M.copy(), f.copy(), labyrinth_factor=1), dtype=float)
        if not np.allclose(l1, wu, rtol=1e-12, atol=0):
            F.add('C17.labyrinth', f'set {si}: labyrinth(1) = {l1.tolist()} differs from upper Wiener {wu.tolist()}', rule='lab1')
        if np.any(res['lab'] > wu * (1 + tol)):
            F.add('C17.labyrinth', f'set {si}: labyrinth({s["lab"]}) = {res["lab"].tolist()} exceeds upper Wiener {wu.tolist()}', rule='labn')
        # reference formulas
        for name in funcs:
            with np.errstate(all='ignore'):
                want = ref_rule(name, M, f, s['lab'])
            if np.all(np.isfinite(want)) and not np.allclose(res[name], want, rtol=1e-6, atol=0):
                F.add('C17.rule_formula', f'set {si}: {name} = {res[name].tolist()}, classical formula gives {want.tolist()} (M={M.tolist()}, f={f.tolist()})', rule=name)


def execute(rec):
    F = core.Failures(cap=16)
    if rec['kind'] == 'real':
        cnt = {'compared': 0, 'repeats': 0, 'fault_cache_drop': 0, 'stable_order_differs': 0}
        sig = {rec['mob'], 'cache:' + rec['cache']}
        two = run_real(rec, F, cnt, sig)
        return core.result(F, sig='real:' + ','.join(sorted(sig)), nontrivial=cnt['compared'] >= 4 and two >= 1, counters=cnt, digest='')
    cnt = {'sets': 0}
    run_synth(rec, F, cnt)
    return core.result(F, sig='synthetic', nontrivial=cnt['sets'] >= 20, counters=cnt, digest='')


def shrink_candidates(rec):
    if rec['kind'] == 'real':
        for c in core.ddmin_candidates(rec['evals']):
            if c:
                r = copy.deepcopy(rec); r['evals'] = c; yield r
        for i, ev in enumerate(rec['evals']):
            if ev['repeat']:
                r = copy.deepcopy(rec); r['evals'][i]['repeat'] = False; yield r
            if ev['rule'] != 'wiener upper':
                r = copy.deepcopy(rec); r['evals'][i]['rule'] = 'wiener upper'; yield r
        if rec['cache'] != 'on':
            r = copy.deepcopy(rec); r['cache'] = 'on'; yield r
    else:
        for c in core.ddmin_candidates(rec['sets']):
            if c:
                r = copy.deepcopy(rec); r['sets'] = c; yield r
