"""C07 - size-class transport is conservative and bounded.  Decided inside the PBM state machine
(ksim.pbmworld): the `step` op runs kawin's transport pipeline (getDissolutionIndex, getDTEuler,
getdXdtEuler incl. the RK4 calling pattern, correctdXdtEuler, UpdatePBMEuler, adjust) at whatever
grid/distribution state the preceding operation history produced and compares with a scalar
face-by-face reference."""
from ksim import pbmworld as W

ID = 'C07'
LEVEL = 'exploration'
RULE = ('Each run = seeded PBM configuration (admissible class counts) + operation history of up to 18/25 ops biased to transport steps; '
        'each step draws a growth field (physical a(1/R*-1/R)/R, all-positive, all-negative, sign-alternating with zeros, 18-decade range, linear with one sign change), '
        'a nucleation rate/radius (inside, at class boundaries, at both grid ends, below, above, the 0 sentinel), a step-size factor relative to the model limit and the Euler or RK4 calling pattern. '
        '30% of the transport steps pass a trial distribution that is not the stored one; recorded distributions are loaded back (setPSDtoRecordedTime). Non-trivial = at least one transport step executed; distinct = distinct record digest; signature = set of growth kinds, calling patterns, limit obeyed/exceeded, grid events seen.')
ASSUMPTIONS = ['Admissible PBM configurations per the class docstring: even class counts, minBins <= maxBins/2, minBins <= bins <= maxBins.',
               'Sum rule / nucleation-class clause asserted for nucleation radii inside the grid (or zero rate); outside-grid deposits are reported under their own check id.',
               'Non-negativity asserted for classes whose two faces satisfy |g| dt <= 0.4 dR (the model\'s own limit).',
               'Face fluxes after the correction are read from the anchored state PopulationBalanceModel._netFlux.']
COMPONENTS = {'real': ['kawin.precipitation.PopulationBalance.PopulationBalanceModel (all methods)'], 'stub': ['growth fields, nucleation terms and distributions are synthetic inputs']}


def plan(tier):
    return dict(runs=12000, batch=100, hard_timeout=300, soft_timeout=30) if tier == 'quick' else dict(runs=200000, batch=500, hard_timeout=900, soft_timeout=30)


def generate(rng, tier, index):
    return W.generate(rng, 'C07', tier, index)


def execute(rec):
    return W.execute(rec, 'C07')


shrink_candidates = W.shrink_candidates
