"""C20 - saved files and surrogates reproduce what they were made from.

Crash-point enumeration: for each generated history solve_1 ... solve_k (k <= 4) EVERY point between
solve calls and after the last one is a save point: save() (+ saveRecordedPSD when recording), deep
snapshot, then "crash": every object of the run is dropped except the file path, a fresh model is
built from the same configuration and load()s the file(s).  Compared bitwise.
Surrogates (real backends): untrained getters pass through to the thermodynamics object; a trained
surrogate reproduces its training data at the training points; fromJson(toJson) predicts the same.
"""
import os, copy, math, tempfile, shutil
import numpy as np
from ksim import core
from ksim import precipworld as W
from ksim import diffworld as DW
from kawin.precipitation.PrecipitationParameters import PrecipitationData

ID = 'C20'
LEVEL = 'fault_enumeration'
RULE = ('Runs are (a) precipitation histories (stub 1-3 phases, real Al-Zr; PSD recording on/off) and (b) diffusion histories (single-phase / homogenization, record on/off) '
        'of 1-4 solve calls; after EVERY solve call the model is saved, all objects are dropped ("crash") and a freshly built model of the same configuration loads the file: '
        'every save point of every history is enumerated; file names with and without extension. (c) surrogate runs on the real Al-Zr / Ni-Cr-Al databases: pass-through of each untrained getter, '
        'reproduction of training data, JSON round trip. A two-precipitate Al-Mg-Si surrogate world checks training reproduction and the file round trip per phase (incl. impingementFactor). Non-trivial = at least one save point with >= 5 recorded steps (a,b), at least 6 compared predictions (c); '
        'distinct = distinct record digest; signature = (kind, backend/provider, phases, recording option, save points, grid events before a save).')
ASSUMPTIONS = ['Torn or truncated files are not part of C20 and are not injected; the crash is the loss of all in-memory state between solve calls.',
               'The fresh model is built from the same run record (same configuration).',
               'Surrogate reproduction tolerance 1e-6 relative (RBF interpolation, smoothing 0); JSON round trip 1e-9.']
COMPONENTS = {'real': ['kawin.GenericModel.save/load', 'kawin.precipitation KWNEuler/KWNBase toDict/fromDict, PopulationBalanceModel.saveRecordedPSD/loadRecordedPSD', 'kawin.diffusion.Diffusion toDict/fromDict',
                       'kawin.thermo.Surrogate + real thermodynamics in surrogate runs', 'numpy .npz files in a per-run temporary directory'],
              'stub': ['analytic backend / synthetic diffusivity provider in the model histories']}


def plan(tier):
    if tier == 'quick':
        return dict(runs=480, batch=3, hard_timeout=900, soft_timeout=400)
    return dict(runs=10000, batch=8, hard_timeout=2400, soft_timeout=900)


def generate(rng, tier, index):
    k = index % 12
    if k == 11:
        return {'kind': 'surrogate_bin', 'T': rng.choice([673.15, 723.15]), 'nx': rng.randint(4, 6), 'ng': rng.randint(4, 6), 'logX': rng.random() < 0.7, 'logY': rng.random() < 0.5,
                'twoT': rng.random() < 0.5, 'probe': [round(rng.uniform(0.1, 0.9), 3) for _ in range(3)]}
    if k == 10 and index % 48 == 10:
        # two precipitate phases (Al-Mg-Si): every quantity of every trained phase must come back at the training points
        return {'kind': 'surrogate_multi2', 'n': rng.choice([2, 2, 3]), 'train': rng.choice(['both', 'both', 'second']), 'probe': [round(rng.uniform(0.2, 0.8), 3) for _ in range(2)]}
    if k == 10:
        return {'kind': 'surrogate_multi', 'T': rng.choice([1073.0, 1173.0]), 'n': rng.choice([2, 3]), 'logX': rng.random() < 0.5, 'probe': [round(rng.uniform(0.2, 0.8), 3) for _ in range(2)]}
    if k in (7, 8, 9):
        cfg = DW.gen_config(rng, real_ok=False)
        cfg['record'] = rng.random() < 0.6
        ops = DW.gen_ops(rng)
        # recording options may change between solve calls: disableRecording() keeps the history recorded so far
        if cfg['record'] and rng.random() < 0.45:
            ops.insert(rng.randint(1, len(ops)), {'op': 'disable_recording'})
        return {'kind': 'diffusion', 'cfg': cfg, 'ops': ops, 'ext': rng.random() < 0.5}
    rec = W.gen_run_record(rng, real_frac=0.06, real_kinds=('real_alzr',), cap=120)
    rec['kind'] = 'precip'
    rec['cfg']['record_psd'] = rng.random() < 0.5
    rec['ext'] = rng.random() < 0.5
    return rec


def prepare(tier, recs):
    W.preload([r['cfg']['backend'] for r in recs if r['kind'] == 'precip'])
    kinds = set(r['kind'] for r in recs)
    if 'surrogate_bin' in kinds:
        _surr_therm('bin')
    if 'surrogate_multi' in kinds:
        _surr_therm('multi')
    if 'surrogate_multi2' in kinds:
        _surr_therm('multi2')


_ST = {}


def _surr_therm(which):
    if which in _ST:
        return _ST[which]
    from kawin.thermo import BinaryThermodynamics, MulticomponentThermodynamics
    from kawin.tests import datasets as ds
    if which == 'bin':
        t = BinaryThermodynamics(ds.ALZR_TDB, ['AL', 'ZR'], ['FCC_A1', 'AL3ZR'], drivingForceMethod='approximate')
        t.setDiffusivity(W._alzr_diff, 'FCC_A1')
    elif which == 'multi2':
        t = MulticomponentThermodynamics(ds.ALMGSI_DB, ['AL', 'MG', 'SI'], ['FCC_A1', 'MGSI_B_P', 'MG5SI6_B_DP'], drivingForceMethod='tangent')
    else:
        t = MulticomponentThermodynamics(ds.NICRAL_TDB, ['NI', 'CR', 'AL'], ['FCC_A1', 'FCC_L12'], drivingForceMethod='approximate')
    t.setDFSamplingDensity(2000)
    t.setEQSamplingDensity(500)
    _ST[which] = t
    return t


def same(a, b):
    if a is None or b is None:
        return a is None and b is None
    a, b = np.asarray(a), np.asarray(b)
    return a.shape == b.shape and np.array_equal(a, b, equal_nan=True)


# ----------------------------------------------------------------------------- precipitation
def precip_snapshot(m):
    s = {'n': int(m.pData.n)}
    for name in PrecipitationData.ATTRIBUTES:
        s['pd.' + name] = np.array(getattr(m.pData, name), copy=True)
    for p, ph in enumerate(m.phases):
        b = m.PBM[p]
        s[f'PSD.{ph}'] = np.array(b.PSD, copy=True)
        s[f'bounds.{ph}'] = np.array(b.PSDbounds, copy=True)
        s[f'size.{ph}'] = np.array(b.PSDsize, copy=True)
        s[f'grid.{ph}'] = np.array([b.min, b.max, b.bins], dtype=float)
        s[f'eqAR.{ph}'] = None if m.eqAspectRatio[p] is None else np.array(m.eqAspectRatio[p], copy=True)
        if b._record and b._recordedTime is not None:
            s[f'recT.{ph}'] = np.array(b._recordedTime, copy=True)
            s[f'recPSD.{ph}'] = np.array(b._recordedPSD, copy=True)
            s[f'recBins.{ph}'] = np.array(b._recordedBins, copy=True)
    return s


def run_precip(rec, F, cnt, sig):
    cfg = rec['cfg']
    tmp = tempfile.mkdtemp(prefix='ksim_c20_')
    try:
        m, backend = W.build_model(cfg, keep_log=False)
        obs = W.Observer([], rec.get('cap', 120))
        m.addCouplingModel(obs)
        bins0 = [b.bins for b in m.PBM]
        for ci, op in enumerate(rec['ops']):
            info = W.run_ops(m, [op], obs)
            if info['exception'] is not None:
                raise core.Inconclusive('solve raised ' + info['exception'][0])
            # ---- save point
            base = os.path.join(tmp, f'save_{ci}')
            fname = base + '.npz' if rec.get('ext') else base
            try:
                m.save(fname)
                if cfg.get('record_psd'):
                    m.saveRecordedPSD(os.path.join(tmp, f'psd_{ci}'))
            except Exception as e:  # noqa
                F.add('C20.save_exception', f'save point {ci}: save raised {type(e).__name__}: {e}', kind='precip', exc=type(e).__name__)
                return
            snap = precip_snapshot(m)
            cnt['save_points'] += 1
            # ---- crash: nothing survives but the file path; fresh model of the same configuration
            m2, _ = W.build_model(cfg, keep_log=False)
            try:
                m2.load(fname)
                if cfg.get('record_psd'):
                    for p, ph in enumerate(m2.phases):
                        m2.PBM[p].loadRecordedPSD(os.path.join(tmp, f'psd_{ci}_{ph}.npz'))
            except Exception as e:  # noqa
                F.add('C20.load_exception', f'save point {ci}: load raised {type(e).__name__}: {e}', kind='precip', exc=type(e).__name__)
                return
            snap2 = precip_snapshot(m2)
            for key, val in snap.items():
                if key == 'n':
                    if snap2['n'] != val:
                        F.add('C20.restored_state', f'save point {ci}: restored step count {snap2["n"]} != {val}', kind='precip', what='n')
                    continue
                if key not in snap2:
                    F.add('C20.restored_state', f'save point {ci}: {key} missing after load', kind='precip', what=key.split('.')[0])
                elif not same(val, snap2[key]):
                    F.add('C20.restored_state', f'save point {ci}: {key} differs after load (shape {None if val is None else np.asarray(val).shape} vs {None if snap2[key] is None else np.asarray(snap2[key]).shape})', kind='precip', what=key.split('.')[0])
            cnt['steps'] = int(m.pData.n)
            if [b.bins for b in m.PBM] != bins0:
                sig.add('grid_changed')
            if info['capped']:
                break
            if ci == len(rec['ops']) - 1 and not cfg['backend'].startswith('real_'):
                # informational probe (not part of the statement, never a violation): does the restored model continue exactly like the
                # one that was never interrupted?  Counts how often the saved state is also the complete state.
                try:
                    ext = dict(op); ext['T'] = op['T'] * 0.25
                    m2.addCouplingModel(W.Observer([], 60))
                    obs.steps = 0; obs.step_cap = 60
                    W.run_ops(m, [ext], obs)
                    W.run_ops(m2, [ext], m2.couplingModels[-1] if hasattr(m2, 'couplingModels') else obs)
                    a, b = precip_snapshot(m), precip_snapshot(m2)
                    same_all = all(same(a[k], b.get(k)) for k in a if k != 'n') and a['n'] == b['n']
                    cnt['continuation_identical' if same_all else 'continuation_differs'] = cnt.get('continuation_identical' if same_all else 'continuation_differs', 0) + 1
                except Exception:  # noqa
                    cnt['continuation_probe_failed'] = cnt.get('continuation_probe_failed', 0) + 1
    finally:
        shutil.rmtree(tmp, ignore_errors=True)


# ----------------------------------------------------------------------------- diffusion
def run_diffusion(rec, F, cnt, sig):
    cfg0 = rec['cfg']
    dt0 = DW.pilot_dt(cfg0)
    total = sum(o['k'] for o in rec['ops'] if o['op'] == 'solve') * dt0
    cfg = DW.resolve_schedule(cfg0, total)
    tmp = tempfile.mkdtemp(prefix='ksim_c20_')
    try:
        m, info = DW.build(cfg)
        m.addCouplingModel(DW.CapObserver(300))
        for ci, op in enumerate(rec['ops']):
            if op['op'] == 'disable_recording':
                m.disableRecording()
                sig.add('recording_disabled_midway')
                continue
            try:
                m.solve(op['k'] * dt0, solverType=DW.SolverType.EXPLICITEULER if op['it'] == 'euler' else DW.SolverType.RK4)
            except DW.StepCap:
                pass
            except Exception as e:  # noqa
                raise core.Inconclusive('solve raised ' + type(e).__name__)
            base = os.path.join(tmp, f'dsave_{ci}')
            fname = base + '.npz' if rec.get('ext') else base
            try:
                m.save(fname)
            except Exception as e:  # noqa
                F.add('C20.save_exception', f'save point {ci}: save raised {type(e).__name__}: {e}', kind='diffusion', exc=type(e).__name__, record=bool(cfg.get('record', True)))
                return
            snap = {'t': float(m.t), 'x': np.array(m.x, copy=True), 'recX': None if m._recordedX is None else np.array(m._recordedX, copy=True),
                    'recT': None if m._recordedTime is None else np.array(m._recordedTime, copy=True)}
            cnt['save_points'] += 1
            m2, _ = DW.build(cfg)
            try:
                m2.load(fname)
            except Exception as e:  # noqa
                F.add('C20.load_exception', f'save point {ci}: load raised {type(e).__name__}: {e}', kind='diffusion', exc=type(e).__name__, record=bool(cfg.get('record', True)))
                return
            if float(m2.t) != snap['t'] or not same(snap['x'], m2.x):
                F.add('C20.restored_state', f'save point {ci}: current time/profile differ after load', kind='diffusion', what='state')
            for key, attr in (('recX', '_recordedX'), ('recT', '_recordedTime')):
                got = getattr(m2, attr)
                if snap[key] is None:
                    if got is not None and np.asarray(got).size > 0 and np.asarray(got).dtype != object:
                        F.add('C20.restored_state', f'save point {ci}: nothing was recorded but {attr} holds data after load', kind='diffusion', what=key)
                elif not same(snap[key], got):
                    F.add('C20.restored_state', f'save point {ci}: {attr} differs after load', kind='diffusion', what=key)
            cnt['steps'] = 0 if m._recordedTime is None else len(m._recordedTime) - 1
        sig.add('rec' if cfg.get('record', True) else 'norec')
    finally:
        shutil.rmtree(tmp, ignore_errors=True)


# ----------------------------------------------------------------------------- surrogates
def close(a, b, rtol, atol=0.0):
    a, b = np.asarray(a, dtype=float), np.asarray(b, dtype=float)
    return a.shape == b.shape and bool(np.all(np.abs(a - b) <= atol + rtol * np.maximum(np.abs(a), np.abs(b))))


def run_surrogate_bin(rec, F, cnt):
    from kawin.thermo import BinarySurrogate
    th = _surr_therm('bin')
    T = rec['T']
    xs = np.logspace(-4, -2, rec['nx'])
    gs = np.linspace(100, 10000, rec['ng'])
    xq, Tq = float(xs[1] * 1.3), T
    # ---- untrained pass-through (each getter), cold cache before each call
    surr = BinarySurrogate(th)
    for name, mk, kw in (('getDrivingForce', lambda: (xq, Tq), {}), ('getInterfacialComposition', lambda: (Tq, np.array(gs, copy=True)), {}),
                         ('getInterdiffusivity', lambda: (xq, Tq), {}), ('getTracerDiffusivity', lambda: (xq, Tq), {})):
        # fresh argument arrays for each call (argument mutation is C09's subject), cold cache before each call
        th.clearCache()
        a = getattr(surr, name)(*mk(), **kw)
        th.clearCache()
        b = getattr(th, name)(*mk(), **kw)
        cnt['compared'] += 1
        a_ = np.concatenate([np.ravel(np.asarray(v, dtype=float)) for v in (a if isinstance(a, tuple) else (a,))])
        b_ = np.concatenate([np.ravel(np.asarray(v, dtype=float)) for v in (b if isinstance(b, tuple) else (b,))])
        if a_.shape != b_.shape or not np.array_equal(a_, b_, equal_nan=True):
            F.add('C20.untrained_passthrough', f'untrained BinarySurrogate.{name} returned {a_.tolist()[:6]}, the thermodynamics object returns {b_.tolist()[:6]}', getter=name, surrogate='binary')
    # ---- training reproduces the training data
    Ts = [T, T + 50] if rec['twoT'] else T
    surr.trainDrivingForce(xs, Ts, logX=rec['logX'])
    surr.trainInterfacialComposition(T, gs, logY=rec['logY'])
    surr.trainDiffusivity(xs, [T, T + 100])
    dfd = surr.drivingForceData['AL3ZR']
    dg, xp = surr.getDrivingForce(np.squeeze(dfd['x']), dfd['T'])
    cnt['compared'] += 2
    if not close(dg, dfd['dg'], 1e-6, 1e-6):
        F.add('C20.training_reproduction', f'trained driving force at the training points {np.asarray(dg).tolist()[:5]} vs training data {np.asarray(dfd["dg"]).tolist()[:5]}', quantity='drivingForce', surrogate='binary')
    icd = surr.interfacialCompositionData['AL3ZR']
    xa, xb = surr.getInterfacialComposition(np.squeeze(icd['T']), np.squeeze(icd['gExtra']))
    cnt['compared'] += 2
    if not close(xa, icd['xpalpha'], 1e-6, 1e-12) or not close(xb, icd['xpbeta'], 1e-6, 1e-12):
        F.add('C20.training_reproduction', f'trained interfacial composition at the training points {np.asarray(xa).tolist()[:5]} vs training data {np.asarray(icd["xpalpha"]).tolist()[:5]}', quantity='interfacialComposition', surrogate='binary')
    dd = surr.diffusivityData['FCC_A1']
    try:
        dn = surr.getInterdiffusivity(np.squeeze(dd['x']), dd['T'])
        cnt['compared'] += 1
        if not close(dn, np.squeeze(dd['dnkj']), 1e-6, 0):
            F.add('C20.training_reproduction', f'trained interdiffusivity at the training points {np.asarray(dn).tolist()[:4]} vs training data {np.squeeze(dd["dnkj"]).tolist()[:4]}', quantity='interdiffusivity', surrogate='binary')
        dtr = surr.getTracerDiffusivity(np.atleast_2d(np.squeeze(dd['x'])).T, dd['T'])
        cnt['compared'] += 1
        if not close(dtr, np.squeeze(dd['dtracer']), 1e-6, 0):
            F.add('C20.training_reproduction', f'trained tracer diffusivity at the training points differs from the training data (first rows {np.asarray(dtr).tolist()[:2]} vs {np.squeeze(dd["dtracer"]).tolist()[:2]})', quantity='tracerDiffusivity', surrogate='binary')
    except Exception as e:  # noqa
        F.add('C20.surrogate_exception', f'trained diffusivity getter raised {type(e).__name__}: {e}', quantity='diffusivity', surrogate='binary')
    # ---- JSON round trip
    tmp = tempfile.mkdtemp(prefix='ksim_c20_')
    try:
        fn = os.path.join(tmp, 'surr')
        surr.toJson(fn)
        s2 = BinarySurrogate(th)
        s2.fromJson(fn)
        pts_x = [float(xs[0] * (xs[-1] / xs[0]) ** p) for p in rec['probe']] + [float(v) for v in xs[:2]]
        for xv in pts_x:
            a = surr.getDrivingForce(xv, T); b = s2.getDrivingForce(xv, T)
            cnt['compared'] += 1
            if not close(a[0], b[0], 1e-9, 1e-9) or not close(a[1], b[1], 1e-9, 1e-12):
                F.add('C20.json_roundtrip', f'driving force prediction at x={xv}: original {float(a[0])!r}, rebuilt from file {float(b[0])!r}', quantity='drivingForce', surrogate='binary')
        for p in rec['probe']:
            gv = float(gs[0] + p * (gs[-1] - gs[0]))
            a = surr.getInterfacialComposition(T, gv); b = s2.getInterfacialComposition(T, gv)
            cnt['compared'] += 1
            if not close(a[0], b[0], 1e-9, 1e-14) or not close(a[1], b[1], 1e-9, 1e-14):
                F.add('C20.json_roundtrip', f'interfacial composition prediction at g={gv}: original {float(a[0])!r}, rebuilt from file {float(b[0])!r}', quantity='interfacialComposition', surrogate='binary')
            xv = float(xs[0] * (xs[-1] / xs[0]) ** p)
            a = surr.getInterdiffusivity(xv, T + 30); b = s2.getInterdiffusivity(xv, T + 30)
            cnt['compared'] += 1
            if not close(a, b, 1e-9, 0):
                F.add('C20.json_roundtrip', f'interdiffusivity prediction at x={xv}: original {float(a)!r}, rebuilt from file {float(b)!r}', quantity='interdiffusivity', surrogate='binary')
    finally:
        shutil.rmtree(tmp, ignore_errors=True)


def run_surrogate_multi(rec, F, cnt):
    from kawin.thermo import MulticomponentSurrogate, generateTrainingPoints
    th = _surr_therm('multi')
    T = rec['T']
    n = rec['n']
    x1 = np.linspace(0.06, 0.10, n)
    x2 = np.linspace(0.08, 0.11, n)
    pts = generateTrainingPoints(x1, x2)
    xq = np.array([0.075, 0.095])
    surr = MulticomponentSurrogate(th)
    for name, args, kw in (('getDrivingForce', (xq, T), {}), ('getInterdiffusivity', (xq, T), {}), ('getTracerDiffusivity', (xq, T), {}),
                           ('impingementFactor', (xq, T), {'precPhase': 'FCC_L12'}), ('curvatureFactor', (xq, T), {'precPhase': 'FCC_L12'})):
        th.clearCache()
        a = getattr(surr, name)(*args, **kw)
        th.clearCache()
        b = getattr(th, name)(*args, **kw)
        cnt['compared'] += 1

        def flat(v):
            if v is None:
                return np.array([np.nan])
            if isinstance(v, tuple):
                return np.concatenate([np.ravel(np.asarray(q, dtype=float)) for q in v])
            return np.ravel(np.asarray(v, dtype=float))
        a_, b_ = flat(a), flat(b)
        if a_.shape != b_.shape or not np.array_equal(a_, b_, equal_nan=True):
            F.add('C20.untrained_passthrough', f'untrained MulticomponentSurrogate.{name} returned {a_.tolist()[:6]}, the thermodynamics object returns {b_.tolist()[:6]}', getter=name, surrogate='multi')
    surr.trainDrivingForce(pts, T, logX=rec['logX'])
    surr.trainCurvature(pts, T, logX=rec['logX'])
    dfd = surr.drivingForceData['FCC_L12']
    dg, xp = surr.getDrivingForce(dfd['x'], dfd['T'])
    cnt['compared'] += 1
    if not close(dg, dfd['dg'], 1e-6, 1e-6):
        F.add('C20.training_reproduction', f'trained driving force at the training points {np.asarray(dg).tolist()[:5]} vs training data {np.asarray(dfd["dg"]).tolist()[:5]}', quantity='drivingForce', surrogate='multi')
    cd = surr.curvatureData['FCC_L12']
    for i in range(len(cd['x'])):
        c = surr.curvatureFactor(cd['x'][i], cd['T'][i], precPhase='FCC_L12')
        cnt['compared'] += 1
        if not (close(c.mc, cd['mc'][i], 1e-6, 0) and close(c.beta, cd['beta'][i], 1e-6, 0) and close(c.c_eq_alpha, cd['xEqAlpha'][i], 1e-6, 1e-12) and close(c.dc, cd['dc'][i], 1e-5, 1e-12 * float(np.max(np.abs(cd['dc'][i]))))):
            F.add('C20.training_reproduction', f'trained curvature factors at training point {i} differ from the training data (mc {float(c.mc)!r} vs {float(cd["mc"][i])!r})', quantity='curvature', surrogate='multi')
            break
    tmp = tempfile.mkdtemp(prefix='ksim_c20_')
    try:
        fn = os.path.join(tmp, 'surr.json')
        surr.toJson(fn)
        s2 = MulticomponentSurrogate(th)
        s2.fromJson(fn)
        for p in rec['probe'] + [0.0]:
            xv = np.array([x1[0] + p * (x1[-1] - x1[0]), x2[0] + (1 - p) * (x2[-1] - x2[0])])
            a = surr.getDrivingForce(xv, T); b = s2.getDrivingForce(xv, T)
            ca = surr.curvatureFactor(xv, T, precPhase='FCC_L12'); cb = s2.curvatureFactor(xv, T, precPhase='FCC_L12')
            cnt['compared'] += 2
            if not close(a[0], b[0], 1e-9, 1e-9):
                F.add('C20.json_roundtrip', f'driving force prediction at x={xv.tolist()}: original {float(a[0])!r}, rebuilt {float(b[0])!r}', quantity='drivingForce', surrogate='multi')
            if not (close(ca.mc, cb.mc, 1e-9, 0) and close(ca.dc, cb.dc, 1e-9, 1e-30) and close(ca.c_eq_alpha, cb.c_eq_alpha, 1e-9, 1e-15)):
                F.add('C20.json_roundtrip', f'curvature prediction at x={xv.tolist()}: original mc {float(ca.mc)!r}, rebuilt {float(cb.mc)!r}', quantity='curvature', surrogate='multi')
    finally:
        shutil.rmtree(tmp, ignore_errors=True)


def run_surrogate_multi2(rec, F, cnt):
    from kawin.thermo import MulticomponentSurrogate
    th = _surr_therm('multi2')
    th.clearCache()
    T = 448.15
    n = rec['n']
    xs = np.array([[a, b] for a in np.linspace(0.006, 0.010, n) for b in np.linspace(0.008, 0.012, n)])
    phases = ['MGSI_B_P', 'MG5SI6_B_DP']
    trained = phases if rec['train'] == 'both' else phases[1:]
    surr = MulticomponentSurrogate(th)
    for ph in trained:
        surr.trainCurvature(xs, T, precPhase=ph)

    def check(sobj, label):
        for ph in trained:
            cd = sobj.curvatureData[ph]
            for i in range(len(cd['x'])):
                c = sobj.curvatureFactor(cd['x'][i], cd['T'][i], precPhase=ph)
                b = sobj.impingementFactor(cd['x'][i], cd['T'][i], precPhase=ph)
                cnt['compared'] += 2
                if not (close(c.mc, cd['mc'][i], 1e-6, 0) and close(c.beta, cd['beta'][i], 1e-6, 0) and close(c.c_eq_alpha, cd['xEqAlpha'][i], 1e-6, 1e-12)):
                    F.add('C20.training_reproduction', f'{label}: curvature factors of phase {ph} at training point {i} differ from the training data', quantity='curvature', surrogate='multi2')
                    return
                if not close(b, cd['beta'][i], 1e-6, 0):
                    F.add('C20.training_reproduction', f'{label}: impingementFactor(precPhase={ph}) at training point {i} = {float(np.squeeze(b))!r}, trained beta {float(cd["beta"][i])!r}', quantity='impingement', surrogate='multi2')
                    return
    check(surr, 'trained surrogate')
    tmp = tempfile.mkdtemp(prefix='ksim_c20_')
    try:
        fn = os.path.join(tmp, 'surr.json')
        surr.toJson(fn)
        s2 = MulticomponentSurrogate(th)
        s2.fromJson(fn)
        check(s2, 'surrogate rebuilt from its file')
        for p in rec['probe']:
            xv = np.array([0.006 + p * 0.004, 0.008 + (1 - p) * 0.004])
            for ph in trained:
                a = surr.impingementFactor(xv, T, precPhase=ph); b = s2.impingementFactor(xv, T, precPhase=ph)
                cnt['compared'] += 1
                if not close(a, b, 1e-9, 0):
                    F.add('C20.json_roundtrip', f'impingement factor of {ph} at x={xv.tolist()}: original {float(np.squeeze(a))!r}, rebuilt {float(np.squeeze(b))!r}', quantity='impingement', surrogate='multi2')
    finally:
        shutil.rmtree(tmp, ignore_errors=True)


def execute(rec):
    F = core.Failures(cap=16)
    kind = rec['kind']
    sig = set()
    if kind.startswith('surrogate'):
        cnt = {'compared': 0}
        {'surrogate_bin': run_surrogate_bin, 'surrogate_multi': run_surrogate_multi, 'surrogate_multi2': run_surrogate_multi2}[kind](rec, F, cnt)
        return core.result(F, sig=kind, nontrivial=cnt['compared'] >= 6, counters=cnt, digest='')
    cnt = {'save_points': 0, 'steps': 0, 'fault_crash': 0}
    if kind == 'precip':
        run_precip(rec, F, cnt, sig)
        tag = f"precip:{rec['cfg']['backend']}:{len(rec['cfg']['phases'])}:{'psdrec' if rec['cfg'].get('record_psd') else 'norec'}"
    else:
        run_diffusion(rec, F, cnt, sig)
        tag = f"diffusion:{rec['cfg']['model']}:{len(rec['cfg']['all_elements'])}"
    cnt['fault_crash'] = cnt['save_points']
    s = tag + f":sp{cnt['save_points']}:" + ','.join(sorted(sig)) + (':ext' if rec.get('ext') else '')
    return core.result(F, sig=s, nontrivial=cnt['save_points'] >= 1 and cnt['steps'] >= 5, counters=cnt, digest='')


def shrink_candidates(rec):
    if rec['kind'] == 'precip':
        for r in W.shrink_run_record(rec):
            yield r
        if rec['cfg'].get('record_psd'):
            r = copy.deepcopy(rec); r['cfg']['record_psd'] = False; yield r
    elif rec['kind'] == 'diffusion':
        from ksim.props import c04
        for r in c04.shrink_candidates(rec):
            yield r
    if rec.get('ext'):
        r = copy.deepcopy(rec); r['ext'] = False; yield r
