"""C09 - thermodynamic queries are pure: history, caching, batching change nothing; the composition
cache of the diffusion models is sound.

World A (real kawin.thermo objects): a run holds one WARM object per database and applies a seeded
history of queries to it; the oracle for each query is the answer of a FRESH twin (a second object
of the same database whose caches are cleared before every call and that evaluates the point alone
with removeCache=True).  "Cache drop" (clearCache / removeCache) at arbitrary instants is the fault.
World B (HashTable): op machine against a reference table with explicit integer keys.
In situ: diffusion runs with the cache switched off / on at high precision.
"""
import math, copy
import numpy as np
from ksim import core

ID = 'C09'
LEVEL = 'exploration'
RULE = ('Runs are (a) query histories on real thermodynamics objects (Al-Zr binary: driving force with all four methods scalar/batched, interfacial composition scalar/array g and array T, '
        'inter-/tracer diffusivity; Ni-Cr-Al ternary: driving force, curvature factor, growth & interfacial composition, impingement factor, diffusivities), 5-30 queries with temperature jumps 0-300 K, '
        'composition jumps across the solvus, removeCache either way and interleaved clearCache(); each answer compared with a fresh twin, repeated immediately, batched vs single, arguments compared bitwise before/after; '
        'Fe-Cr-Ni (two solution phases with mobility data): inter-/tracer diffusivity addressed to either phase; '
        '(b) HashTable machines: 5-40 ops from {enableCaching, setHashSensitivity(1..6), add, retrieve, clearCache} with (x,T) clusters straddling rounding boundaries; '
        '(c) diffusion runs with useCache(False) vs cache on at precision 8. Non-trivial = at least 5 compared queries (a), 5 retrieves (b), 10 steps (c); distinct = distinct record digest; '
        'signature = (kind, database, methods used, cache drops, batch).')
ASSUMPTIONS = ['Driving force by the curvature method: 3e-5 relative (a warm-started equilibrium is converged to the solver tolerance only; the quadratic expansion amplifies the residual: observed 3e-6 between a warm call and its own repetitions, which converge to the cold value).', 'Diffusivities (m2/s) are compared purely relatively: 1e-6 of the largest matrix entry.', 'Warm vs fresh tolerance: 1e-7 relative (energy-like results: 1e-6 relative + 1e-4 J/mol) (+1e-6 J/mol absolute on energies, 1e-10 on compositions); both objects are built from the same database with the same sampling densities.',
               'Hash sensitivities 1..9 are generated (reference keys are exact integers).',
               'Diffusion in-situ comparison: cache off vs cache on at precision 6, agreement 1e-5 relative (nodes closer than 1e-6 may share a key by design).']
COMPONENTS = {'real': ['kawin.thermo.BinaryThermodynamics / MulticomponentThermodynamics / GeneralThermodynamics + pycalphad', 'kawin.thermo.LocalEquilibrium', 'kawin.diffusion.DiffusionParameters.HashTable', 'kawin.diffusion.SinglePhase (in situ)'],
              'stub': ['synthetic diffusivity provider in the in-situ diffusion runs (the cache under test is kawin\'s)']}

_TH = {}


def plan(tier):
    if tier == 'quick':
        return dict(runs=120 + 2400 + 120, batch=6, hard_timeout=900, soft_timeout=400)
    return dict(runs=2500 + 60000 + 2000, batch=20, hard_timeout=2400, soft_timeout=900)


def _sizes(tier):
    return (120, 2400) if tier == 'quick' else (2500, 60000)


def gen_x(rng, db, xeq=None):
    if db == 'alzr':
        return float(10 ** rng.uniform(-5, -2.1))
    return [round(rng.uniform(0.03, 0.16), 5), round(rng.uniform(0.03, 0.16), 5)]


def generate(rng, tier, index):
    nq, nh = _sizes(tier)
    if index < nq and index % 6 == 5:
        # Fe-Cr-Ni (two solution phases, both with mobility data): diffusivity queries addressed to either phase;
        # the per-phase warm-start sets must not leak from one phase's queries into the other's
        T = rng.choice([1173.0, 1273.0, 1373.15])
        ops = []
        for _ in range(rng.randint(4, 12)):
            x = [round(rng.uniform(0.1, 0.32), 5), round(rng.uniform(0.03, 0.15), 5)]
            T = min(max(T + rng.choice([0, 0, 20, -50, 100]), 1100.0), 1450.0)
            r = rng.random()
            if r < 0.08:
                ops.append({'q': 'clearCache'})
            else:
                ops.append({'q': 'interdiff' if r < 0.65 else 'tracer', 'x': x, 'T': T, 'rc': rng.random() < 0.35, 'phase': rng.choice([None, 'FCC_A1', 'BCC_A2', 'BCC_A2'])})
        return {'kind': 'queries', 'db': 'fecrni', 'method': 'tangent', 'walk': False, 'ops': ops}
    if index < nq:
        db = 'alzr' if rng.random() < 0.5 else 'nicral'
        method = rng.choice(['tangent', 'tangent', 'sampling', 'approximate', 'curvature'])
        T = rng.choice([673.15, 723.15, 773.15]) if db == 'alzr' else rng.choice([1023.0, 1073.0, 1173.0])
        x = gen_x(rng, db)
        walk = rng.random() < 0.5           # small moves as in a precipitation run vs large jumps
        ops = []
        for _ in range(rng.randint(5, 30 if tier == 'thorough' else 16)):
            if walk:
                if db == 'alzr':
                    x = float(min(max(x * (1 + rng.uniform(-0.03, 0.03)), 1e-5), 8e-3))
                else:
                    x = [round(min(max(v + rng.uniform(-2e-3, 2e-3), 0.02), 0.18), 6) for v in x]
                T = T + rng.uniform(-5, 5)
            else:
                x = gen_x(rng, db)
                T = T + rng.choice([0, 0, 10, -50, 100, -150, 300, -300])
                T = min(max(T, 600 if db == 'alzr' else 900), 900 if db == 'alzr' else 1300)
            r = rng.random()
            rc = rng.random() < 0.25
            if r < 0.08:
                ops.append({'q': 'clearCache'})
            elif r < 0.45:
                ops.append({'q': 'df', 'x': x, 'T': T, 'rc': rc, 'batch': rng.random() < 0.25})
            elif r < 0.6:
                ops.append({'q': 'interdiff', 'x': x, 'T': T, 'rc': rng.random() < 0.5})
            elif r < 0.7:
                ops.append({'q': 'tracer', 'x': x, 'T': T, 'rc': rng.random() < 0.5})
            elif db == 'alzr':
                ng = rng.choice([1, 1, 4, 8])
                g = [float(v) for v in sorted(10 ** rng.uniform(1.5, 4.3) for _ in range(ng))] if ng > 1 else float(rng.choice([0.0, 10 ** rng.uniform(1.5, 4.3)]))
                ops.append({'q': 'ic', 'T': T, 'g': g, 'arrayT': ng > 1 and rng.random() < 0.3})
            else:
                kind = rng.choice(['curv', 'growth', 'imp'])
                ops.append({'q': kind, 'x': x, 'T': T, 'rc': rc})
        return {'kind': 'queries', 'db': db, 'method': method, 'walk': walk, 'ops': ops}
    if index < nq + nh:
        ops = []
        base = [round(rng.uniform(0.01, 0.5), 6) for _ in range(rng.choice([1, 2, 3]))]
        Tb = rng.choice([700.0, 1000.0, 1273.15])
        for _ in range(rng.randint(5, 40)):
            r = rng.random()
            if r < 0.08:
                ops.append({'op': 'enable', 'v': rng.random() < 0.6})
            elif r < 0.16:
                ops.append({'op': 'sens', 'v': rng.randint(1, 9)})
            elif r < 0.2:
                ops.append({'op': 'clear'})
            else:
                # cluster around base, straddling rounding boundaries
                x = [round(b + rng.choice([0, 0, 1e-7, -1e-7, 4.9e-5, 5.1e-5, 1e-3, -1e-3, rng.uniform(-0.01, 0.01)]), 9) for b in base]
                T = Tb + rng.choice([0, 0, 1e-5, 0.049, 0.051, 1, -1])
                ops.append({'op': 'add' if r < 0.55 else 'get', 'x': x, 'T': T})
        return {'kind': 'hashtable', 'ops': ops}
    from ksim import diffworld as DW
    cfg = DW.gen_config(rng, model='single', real_ok=False)
    cfg.pop('cache', None); cfg.pop('hash_s', None)
    cfg['bcs'] = {}
    if rng.random() < 0.5:
        # temperature varying along the mesh (and in time): the cache must distinguish nodes of equal composition at different temperature
        T0 = cfg['T']['T'] if cfg['T']['kind'] == 'const' else cfg['T']['temps'][0]
        cfg['T'] = {'kind': 'func', 'times': [0.0, 1.0], 'temps': [T0, T0 + rng.choice([0, -50, 30])], 'time_scale': True, 'grad': rng.choice([20.0, -40.0, 80.0]) / cfg['L']}
        if rng.random() < 0.5:
            # plateaus: many nodes share a composition, so only the temperature tells them apart
            for el in cfg['profiles']:
                cfg['profiles'][el]['kind'] = 'step'
    return {'kind': 'diffusion_cache', 'cfg': cfg, 'ops': DW.gen_ops(rng)}


def prepare(tier, recs):
    dbs = set(r['db'] for r in recs if r['kind'] == 'queries')
    from kawin.thermo import BinaryThermodynamics, MulticomponentThermodynamics
    from kawin.tests import datasets as ds
    from ksim import precipworld as W
    for db in sorted(dbs):
        if db in _TH:
            continue
        pair = []
        for _ in range(2):
            if db == 'fecrni':
                from kawin.thermo import GeneralThermodynamics
                t = GeneralThermodynamics(ds.FECRNI_DB, ['FE', 'CR', 'NI'], ['FCC_A1', 'BCC_A2'])
            elif db == 'alzr':
                t = BinaryThermodynamics(ds.ALZR_TDB, ['AL', 'ZR'], ['FCC_A1', 'AL3ZR'], drivingForceMethod='tangent')
                t.setDiffusivity(W._alzr_diff, 'FCC_A1')
            else:
                t = MulticomponentThermodynamics(ds.NICRAL_TDB, ['NI', 'AL', 'CR'], ['FCC_A1', 'FCC_L12'], drivingForceMethod='tangent')
            t.setDFSamplingDensity(2000)
            t.setEQSamplingDensity(500)
            pair.append(t)
        _TH[db] = pair


# ----------------------------------------------------------------------------- world A
def flat(v):
    if v is None:
        return None
    if isinstance(v, tuple) and not hasattr(v, '_fields'):
        parts = [flat(a) for a in v]
        if any(p is None for p in parts):
            return None
        return np.concatenate(parts)
    if hasattr(v, '_fields'):
        return np.concatenate([np.ravel(np.asarray(a, dtype=float)) for a in v])
    a = np.asarray(v)
    if a.dtype == object:
        if any(e is None for e in np.ravel(a)):
            return None
        a = a.astype(float)
    return np.ravel(a.astype(float))


def agree(a, b, energy_like, rtol=1e-7, diffusivity=False):
    if a is None or b is None:
        return a is None and b is None
    if a.shape != b.shape:
        return False
    # energies (J/mol) carry solver convergence noise of ~1e-7 relative that the curvature expansion amplifies: 1e-4 J/mol + 1e-6 relative
    atol = 1e-4 if energy_like else 1e-10
    if energy_like:
        rtol = max(rtol, 1e-6)
    if diffusivity:
        # m2/s values of 1e-12..1e-20: purely relative, scaled by the largest entry of the matrix (off-diagonal entries may cancel to ~0)
        scale = max(float(np.max(np.abs(a))), float(np.max(np.abs(b))))
        return bool(np.all(np.abs(a - b) <= 1e-6 * scale))
    return bool(np.all(np.abs(a - b) <= atol + rtol * np.maximum(np.abs(a), np.abs(b))))


def do_query(th, op, db, fresh=False):
    """Runs one query; returns (result, list of (argname, before, after)) with fresh argument arrays."""
    q = op['q']
    rc = True if fresh else op.get('rc', False)
    args_log = []

    def arr(name, v):
        a = np.array(v, dtype=float, copy=True)
        args_log.append((name, a.copy(), a))
        return a
    if q == 'df':
        x = arr('x', op['x']); T = arr('T', op['T'])
        xin = x if db == 'nicral' else (x if x.ndim else float(x))
        res = th.getDrivingForce(xin, T if T.ndim else float(T), removeCache=rc)
    elif q == 'interdiff':
        x = arr('x', op['x'])
        res = th.getInterdiffusivity(x if x.ndim else float(x), op['T'], removeCache=rc, **({'phase': op['phase']} if op.get('phase') else {}))
    elif q == 'tracer':
        x = arr('x', op['x'])
        res = th.getTracerDiffusivity(x if x.ndim else float(x), op['T'], removeCache=rc, **({'phase': op['phase']} if op.get('phase') else {}))
    elif q == 'ic':
        g = arr('gExtra', op['g'])
        if op.get('arrayT'):
            T = arr('T', [op['T']] * len(np.atleast_1d(g)))
            res = th.getInterfacialComposition(T, g)
        else:
            res = th.getInterfacialComposition(op['T'], g if g.ndim else float(g))
    elif q == 'curv':
        x = arr('x', op['x'])
        res = th.curvatureFactor(x, op['T'], precPhase='FCC_L12', removeCache=rc, computeSearchDir=True)
    elif q == 'growth':
        x = arr('x', op['x'])
        R = arr('R', np.linspace(5e-10, 5e-9, 6)); gE = arr('gExtra', 2 * 0.023 * 7e-6 / np.linspace(5e-10, 5e-9, 6))
        dg, comp = th.getDrivingForce(x.copy(), op['T'], precPhase='FCC_L12', removeCache=rc)
        if dg is None or comp is None or np.ndim(dg) != 0:
            return 'skip', args_log
        res = th.getGrowthAndInterfacialComposition(x, op['T'], float(dg), R, gE, precPhase='FCC_L12', removeCache=rc, searchDir=np.array(comp, dtype=float))
    elif q == 'imp':
        x = arr('x', op['x'])
        dg, comp = th.getDrivingForce(x.copy(), op['T'], precPhase='FCC_L12', removeCache=rc)
        if comp is None or np.ndim(dg) != 0:
            return 'skip', args_log
        res = th.impingementFactor(x, op['T'], precPhase='FCC_L12', removeCache=rc, searchDir=np.array(comp, dtype=float))
    else:
        raise ValueError(q)
    return res, args_log


def run_queries(rec, F, cnt, sig):
    db = rec['db']
    warm, fresh = _TH[db]
    for t in (warm, fresh):
        t.clearCache()
        if hasattr(t, '_compset_cache_curvature'):
            t._compset_cache_curvature = {}
        t.setDrivingForceMethod(rec['method'])
    ordered = db == 'nicral'
    prev_T, prev_x = None, None
    # (curvatureFactor with computeSearchDir=True calls getDrivingForce internally when it has to search for the two-phase region, so it can start from the driving-force sets too)
    FAM = {'df': ('df',), 'curv': ('curv', 'df'), 'growth': ('df', 'curv'), 'imp': ('df', 'curv'), 'interdiff': ('diff',), 'tracer': ('diff',), 'ic': ()}
    cache = {'df': False, 'curv': False, 'diff': False}     # per cache family: does the warm object hold composition sets from an earlier call?
    # (removeCache=True drops a family's sets only AFTER the call that passes it)
    for k, op in enumerate(rec['ops']):
        q = op['q']
        if q == 'clearCache':
            warm.clearCache()
            if hasattr(warm, '_compset_cache_curvature'):
                warm._compset_cache_curvature = {}
            cache = {'df': False, 'curv': False, 'diff': False}
            cnt['fault_cache_drop'] += 1
            sig.add('drop')
            continue
        had_cache = any(cache[f] for f in FAM[q])
        for f in FAM[q]:
            if q == 'curv' and f == 'df':
                cache[f] = cache[f] or not op.get('rc', False)      # the internal call happens only when a search is needed: keep the conservative answer
            else:
                cache[f] = not op.get('rc', False)
        opq = dict(op)
        if op.get('batch') and q == 'df':
            # batched call: this point together with two others; element 0 must equal the single call
            if db == 'alzr':
                opq['x'] = [op['x'], op['x'] * 1.7, op['x'] * 0.4]
            else:
                opq['x'] = [op['x'], [v * 0.9 for v in op['x']], [v * 1.1 for v in op['x']]]
            opq['T'] = [op['T'], op['T'] + 20, op['T'] - 20]
        try:
            res_w, args_w = do_query(warm, opq, db)
        except Exception as e:  # noqa
            F.add('C09.exception.' + type(e).__name__, f'query {k} ({q}) on the warm object raised {type(e).__name__}: {e}', query=q, method=rec['method'])
            continue
        if isinstance(res_w, str):
            continue
        big_jump = prev_T is not None and (abs(op.get('T', prev_T) - prev_T) > 20 or (prev_x is not None and 'x' in op and np.max(np.abs(np.atleast_1d(op['x']) - np.atleast_1d(prev_x)) / np.atleast_1d(prev_x)) > 0.1))
        prev_T = op.get('T', prev_T); prev_x = op.get('x', prev_x)
        # ---- arguments unchanged
        for name, before, after in args_w:
            if not np.array_equal(before, after):
                F.add('C09.argument_mutated', f'query {k} ({q}): argument {name} changed from {before.tolist()} to {after.tolist()}', query=q, arg=name)
        # ---- fresh twin, single point
        fresh.clearCache()
        if hasattr(fresh, '_compset_cache_curvature'):
            fresh._compset_cache_curvature = {}
        try:
            res_f, _ = do_query(fresh, op, db, fresh=True)
        except Exception as e:  # noqa
            cnt['fresh_exceptions'] += 1
            continue
        fw = flat(res_w)
        ff = flat(res_f)
        energy_like = q in ('df', 'curv', 'growth', 'imp')
        cnt['compared'] += 1
        sig.add(q)
        if op.get('batch') and q == 'df':
            sig.add('batch')
            # element 0 of the batched answer vs the single fresh answer
            if res_w[0] is None or res_f[0] is None:
                fw0 = None if res_w[0] is None else 0
            dg_b = np.atleast_1d(np.asarray(res_w[0], dtype=float))[0]
            comp_b = np.atleast_2d(np.asarray(res_w[1], dtype=float))[0] if db == 'nicral' else np.atleast_1d(np.asarray(res_w[1], dtype=float))[0]
            fw = np.concatenate(([dg_b], np.ravel(comp_b)))
        ctx = dict(query=q, method=rec['method'] if q in ('df', 'growth', 'imp') else 'n/a', ordered=bool(ordered), warm_start=bool(had_cache), large_jump=bool(big_jump), batch=bool(op.get('batch', False)))
        curv_rtol = 3e-5 if (q == 'df' and rec['method'] == 'curvature') else 1e-7
        if not agree(fw, ff, energy_like, rtol=curv_rtol, diffusivity=q in ('interdiff', 'tracer')):
            dmax = None if fw is None or ff is None or fw.shape != ff.shape else float(np.max(np.abs(fw - ff)))
            ctx['small_offset'] = bool(dmax is not None and q == 'df' and dmax <= 2.0 * float(getattr(warm, 'gOffset', 1.0)) + 1e-6)
            F.add('C09.warm_vs_fresh', f'query {k} ({q}, method {rec["method"]}, x={op.get("x")}, T={op.get("T")}): warm object returned {None if fw is None else fw.tolist()[:6]}, a fresh twin {None if ff is None else ff.tolist()[:6]} (max |diff| {dmax})', **ctx)
        # ---- immediate repetition
        if not op.get('batch'):
            res_w2, _ = do_query(warm, opq, db)
            f2 = flat(res_w2) if not isinstance(res_w2, str) else None
            f1 = flat(res_w)
            if not isinstance(res_w2, str) and not agree(f1, f2, energy_like, rtol=curv_rtol, diffusivity=q in ('interdiff', 'tracer')):
                rctx = {kk: vv for kk, vv in ctx.items() if kk != 'small_offset'}
                rctx['warm_start'] = bool(had_cache or not op.get('rc', False))      # at least one of the two calls started from cached sets
                F.add('C09.repeat', f'query {k} ({q}, method {rec["method"]}): repeating the call immediately gives {None if f2 is None else f2.tolist()[:6]} instead of {None if f1 is None else f1.tolist()[:6]}', **rctx)
    return


# ----------------------------------------------------------------------------- world B
def ref_key(x, T, s):
    # exact integer key: truncation of value * 10^s (python integers, no overflow)
    vals = list(x) + [T]
    return tuple(int(np.float64(v) * np.float64(10 ** s)) for v in vals)


def run_hashtable(rec, F, cnt):
    from kawin.diffusion.DiffusionParameters import HashTable
    ht = HashTable()
    caching, s = True, 4
    ref = {}
    for k, op in enumerate(rec['ops']):
        o = op['op']
        if o == 'enable':
            ht.enableCaching(op['v']); caching = op['v']
        elif o == 'sens':
            ht.setHashSensitivity(op['v']); s = op['v']
        elif o == 'clear':
            ht.clearCache(); ref = {}
        elif o == 'add':
            val = ('v', k)
            ht.addToHashTable(np.array(op['x'], dtype=float), op['T'], val)
            if caching:
                ref[ref_key(op['x'], op['T'], s)] = val
            if not caching and len(ht.cachedData) > 0 and len(ref) == 0:
                F.add('C09.cache_switch', f'op {k}: caching is switched off but the table stored a value', what='add')
        else:
            got = ht.retrieveFromHashTable(np.array(op['x'], dtype=float), op['T'])
            cnt['retrieves'] += 1
            if not caching:
                if got is not None:
                    F.add('C09.cache_switch', f'op {k}: caching is switched off but retrieve returned {got!r}', what='retrieve')
                continue
            # soundness: a retrieved value must have been stored under an equal explicit key (at the precision in force when it was stored)
            want = ref.get(ref_key(op['x'], op['T'], s))
            if got is not None and got != want:
                F.add('C09.cache_key', f'op {k}: retrieve({op["x"]}, {op["T"]}) at precision {s} returned {got!r}, the value stored under the equal rounded key is {want!r}', what='key')
            if got is None and want is not None:
                cnt['missed_hits'] += 1


# ----------------------------------------------------------------------------- in situ
def run_diffusion_cache(rec, F, cnt):
    from ksim import diffworld as DW
    cfg0 = rec['cfg']
    dt0 = DW.pilot_dt(cfg0)
    total = sum(o['k'] for o in rec['ops']) * dt0
    out = {}
    for mode in ('off', 'on6'):
        cfg = DW.resolve_schedule(copy.deepcopy(cfg0), total)
        m, info = DW.build(cfg)
        if mode == 'off':
            m.useCache(False)
        else:
            m.setHashSensitivity(6)
        flux = DW.FluxTap(m)
        m.addCouplingModel(DW.CapObserver(200))
        for op in rec['ops']:
            try:
                m.solve(op['k'] * dt0, solverType=DW.SolverType.EXPLICITEULER if op['it'] == 'euler' else DW.SolverType.RK4)
            except DW.StepCap:
                break
            except Exception as e:  # noqa
                raise core.Inconclusive('solve raised ' + type(e).__name__)
        out[mode] = (np.array(m.x, copy=True), float(m.t), info['therm'].calls, len(flux.calls), len(m.hashTable.cachedData))
        cnt['steps'] = len(flux.calls)
    x_off, t_off, calls_off, nflux, ncached = out['off']
    N = cfg0['N']
    if ncached != 0:
        F.add('C09.cache_switch', f'diffusion run with useCache(False) left {ncached} entries in the composition cache', what='in_situ')
    if calls_off != nflux * N:
        F.add('C09.cache_switch', f'diffusion run with useCache(False): backend called {calls_off} times for {nflux} flux evaluations x {N} nodes', what='in_situ_calls')
    x_on, t_on = out['on6'][0], out['on6'][1]
    if abs(t_on - t_off) > 1e-6 * abs(t_off) or not np.allclose(x_on, x_off, rtol=1e-5, atol=1e-12):
        F.add('C09.cache_changes_result', f'diffusion run with the cache at precision 6 differs from the cache-off run (max diff {float(np.max(np.abs(x_on - x_off)))!r}, end times {t_on!r} / {t_off!r})', what='in_situ')


def execute(rec):
    F = core.Failures(cap=20)
    kind = rec['kind']
    if kind == 'queries':
        cnt = {'compared': 0, 'fault_cache_drop': 0, 'fresh_exceptions': 0}
        sig = {rec['db'], rec['method'], 'walk' if rec['walk'] else 'jumps'}
        run_queries(rec, F, cnt, sig)
        return core.result(F, sig='queries:' + ','.join(sorted(sig)), nontrivial=cnt['compared'] >= 5, counters=cnt, digest='')
    if kind == 'hashtable':
        cnt = {'retrieves': 0, 'missed_hits': 0}
        run_hashtable(rec, F, cnt)
        return core.result(F, sig='hashtable', nontrivial=cnt['retrieves'] >= 5, counters=cnt, digest='')
    cnt = {'steps': 0}
    run_diffusion_cache(rec, F, cnt)
    return core.result(F, sig='diffusion_cache:' + str(len(rec['cfg']['all_elements'])), nontrivial=cnt['steps'] >= 10, counters=cnt, digest='')


def shrink_candidates(rec):
    if rec['kind'] in ('queries', 'hashtable'):
        for c in core.ddmin_candidates(rec['ops']):
            if c:
                r = copy.deepcopy(rec); r['ops'] = c; yield r
        if rec['kind'] == 'queries':
            for i, op in enumerate(rec['ops']):
                if op.get('batch'):
                    r = copy.deepcopy(rec); r['ops'][i]['batch'] = False; yield r
                if op.get('rc'):
                    r = copy.deepcopy(rec); r['ops'][i]['rc'] = False; yield r
    else:
        from ksim.props import c04
        for r in c04.shrink_candidates(rec):
            yield r
