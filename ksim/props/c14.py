"""C14 - nucleation quantities obey classical nucleation theory for every site type.

What simulation decides:
 (a) cache coherence of geometric factors: setter-history state machine on
     NucleationBarrierParameters / PrecipitateParameters; after every op every read must equal that of
     a fresh object built with the current values (bitwise, incl. which reads raise ValueError);
 (b) site budget in runs: tap on _calcNucleationSites, compared with an independent reference;
 (c) in-run sanity of the recorded nucleation quantities at every step of every precipitation world.
Formula clauses (Clemm-Fisher identities, spherical limit, barrier/Zeldovich relations) are oracles
evaluated at the states (a)-(c) visit: a sample, not a sweep.
"""
import math, copy
import numpy as np
from ksim import core, refs, monitors as M
from ksim import precipworld as W
from kawin.precipitation import PrecipitateParameters, NucleationBarrierParameters

ID = 'C14'
LEVEL = 'exploration'
RULE = ('Runs are (a) setter-history machines: 3-30 ops from {set gamma, set gbEnergy, set site type (5 kinds, by name), read GBk/areaFactor/volumeFactor/gbRemoval/areaRemoval, '
        'Rcrit(dG), Gcrit(dG,R)} on a NucleationBarrierParameters or a PrecipitateParameters object, each read compared with a fresh twin and with the reference Clemm-Fisher formulas '
        'and identities; (b,c) precipitation worlds (stub 1-3 phases with all site types and parent-phase nucleation, real Al-Zr) with a tap on _calcNucleationSites and per-step checks '
        'of Rcrit, Gcrit, impingement, rate, incubation factor. At every seventh visited nucleating state the rate functions themselves are called (zeldovich, incubationTime, nucleationRate at five times and at infinity, scalar and array form): factor in [0,1], rising with time, steady-state limit. Machine ops include array-vs-scalar reads of the description functions; a third of the multi-phase runs put every phase on one site type; grain-boundary energy 0 is generated. Non-trivial = at least 3 reads after a setter (a) or at least 5 steps with positive driving force (b,c); '
        'distinct = distinct record digest; signature = (kind, site types used, events).')
ASSUMPTIONS = ['k values and driving forces are those the machines/runs visit (sample, not sweep); monotonicity of the steady-state rate in the driving force is checked along isothermal trajectories only.',
               'Total site densities N0 are taken from the model (configuration); asserted: available sites >= 0, <= N0 + parent-surface sites, equal to N0 - occupied for single-phase runs (independent occupancy formulas), and non-increasing while every phase\'s occupancy moments grow.',
               'Fresh-twin comparison is bitwise (same arithmetic).']
COMPONENTS = {'real': ['kawin.precipitation.parameters.Nucleation', 'kawin.precipitation.NucleationRate', 'kawin.precipitation.KWNEuler._calcNucleationSites', 'full KWN model in (b,c)'],
              'stub': ['analytic thermodynamics backend in stub runs']}

SITES = ['bulk', 'dislocations', 'grain boundaries', 'grain edges', 'grain corners']
READS = ['GBk', 'areaFactor', 'volumeFactor', 'gbRemoval', 'areaRemoval']


def plan(tier):
    if tier == 'quick':
        return dict(runs=2500 + 400, batch=10, hard_timeout=600, soft_timeout=150)
    return dict(runs=100000 + 10000, batch=50, hard_timeout=1800, soft_timeout=300)


def generate(rng, tier, index):
    nmach = 2500 if tier == 'quick' else 100000
    if index < nmach:
        ops = []
        for _ in range(rng.randint(3, 30)):
            r = rng.random()
            if r < 0.2:
                ops.append({'op': 'gamma', 'v': rng.choice([0.05, 0.1, 0.15, 0.2, 0.3, 0.5, round(rng.uniform(0.02, 0.6), 4)])})
            elif r < 0.35:
                ops.append({'op': 'gb', 'v': rng.choice([0.0, 0.1, 0.2, 0.3, 0.5, round(rng.uniform(0.0, 0.8), 4)])})
            elif r < 0.55:
                ops.append({'op': 'site', 'v': rng.choice(SITES)})
            elif r < 0.8:
                ops.append({'op': 'read', 'v': rng.choice(READS)})
            elif r < 0.85:
                ops.append({'op': 'read_array', 'u': [round(rng.random(), 4) for _ in range(rng.randint(2, 7))]})
            elif r < 0.93:
                ops.append({'op': 'rcrit', 'dG': 10 ** rng.uniform(6, 10)})
            else:
                ops.append({'op': 'gcrit', 'dG': 10 ** rng.uniform(6, 10), 'rf': rng.choice([1.0, 1.0, 1.2, 2.0])})
        return {'kind': 'machine', 'holder': rng.choice(['barrier', 'precipitate']), 'gamma0': rng.choice([None, 0.2, 0.3]), 'gb0': 0.3,
                'site0': rng.choice(SITES), 'ops': ops}
    rec = W.gen_run_record(rng, real_frac=0.08, real_kinds=('real_alzr',))
    rec['kind'] = 'run'
    cfg = rec['cfg']
    if not cfg['backend'].startswith('real_'):
        # make site competition / parent-phase nucleation likely
        if len(cfg['phases']) > 1 and rng.random() < 0.4:
            cfg['phase_params'][cfg['phases'][1]]['parents'] = [cfg['phases'][0]]
        if len(cfg['phases']) > 1 and rng.random() < 0.35:
            # every phase competes for the same kind of site (the occupancy of the other phases must count)
            site = rng.choice(['bulk', 'grain boundaries', 'grain edges', 'grain corners', 'grain corners'])
            for ph in cfg['phases']:
                pp_ = cfg['phase_params'][ph]
                pp_['site'] = site
                pp_['shape'], pp_['ar'] = 'sphere', 1.0
                if site in W.SITE_KMAX and cfg['gbEnergy'] / (2 * pp_['gamma']) >= 0.95 * W.SITE_KMAX[site]:
                    pp_['gamma'] = round(cfg['gbEnergy'] / (2 * 0.8 * W.SITE_KMAX[site]), 4)
        if rng.random() < 0.5:
            cfg['nuc_density'] = {'grainSize': rng.choice([0.5, 1, 10, 100]), 'aspectRatio': rng.choice([1, 1, 2]), 'dislocationDensity': rng.choice([5e12, 1e14, 1e15])}
            if rng.random() < 0.4:
                cfg['nuc_density']['bulkN0'] = rng.choice([1e26, 1e28, 1e30])
    return rec


def prepare(tier, recs):
    W.preload([r['cfg']['backend'] for r in recs if r['kind'] == 'run'])


# ----------------------------------------------------------------------------- (a) machine
def read_all(obj, F=None):
    out = {}
    for name in READS:
        try:
            out[name] = float(getattr(obj, name))
        except ValueError as e:
            out[name] = 'ValueError'
    return out


def run_machine(rec, F, cnt, sig):
    if rec['holder'] == 'barrier':
        holder = None
        nb = NucleationBarrierParameters(site=rec['site0'], gamma=rec['gamma0'], gbEnergy=rec['gb0'])
    else:
        holder = PrecipitateParameters('phase')
        nb = holder.nucleation
        nb.gbEnergy = rec['gb0']
        if rec['gamma0'] is not None:
            holder.gamma = rec['gamma0']
        nb.setNucleationType(rec['site0'])
    gamma, gb, site = rec['gamma0'], rec['gb0'], rec['site0']
    reads_after_set = 0
    for k, op in enumerate(rec['ops']):
        o = op['op']
        cnt['ops'] += 1
        if o == 'gamma':
            gamma = op['v']
            if holder is not None:
                holder.gamma = gamma
            else:
                nb.gamma = gamma
            continue
        if o == 'gb':
            gb = op['v']
            nb.gbEnergy = gb
            continue
        if o == 'site':
            site = op['v']
            nb.setNucleationType(site)
            sig.add(site)
            continue
        if o == 'read_array':
            # description-level functions take the energy ratio as an argument, scalar or array: element i of the array answer must be the
            # scalar answer for k_i; factors non-negative, volume factor decreasing in k, identity a - 2 k b = 3 c
            desc = NucleationBarrierParameters(site=site, gamma=0.2, gbEnergy=0.1).description
            kmax = refs.SITE_KMAX.get(site, 1.0)
            ks = np.array(sorted(u * kmax * 0.999 for u in op['u']), dtype=float)
            cnt['reads'] += 1
            vals = {}
            for fn in ('volumeFactor', 'gbRemoval', 'areaFactor', 'areaRemoval'):
                arr = np.asarray(getattr(desc, fn)(ks.copy()), dtype=float)
                sca = np.array([float(getattr(desc, fn)(float(kv))) for kv in ks])
                vals[fn] = sca
                if arr.shape != sca.shape or not np.allclose(arr, sca, rtol=1e-12, atol=1e-14, equal_nan=True):
                    F.add('C14.array_scalar', f'{site}: {fn}(array k={ks.tolist()}) = {arr.tolist()}, scalar calls give {sca.tolist()}', factor=fn)
                    break
            else:
                if site in refs.SITE_KMAX:
                    if np.any(np.diff(vals['volumeFactor']) > 1e-12):
                        F.add('C14.volume_factor_monotone', f'{site}: volume factor does not decrease with k: k={ks.tolist()} -> {vals["volumeFactor"].tolist()}', factor='volumeFactor')
                    if min(np.min(vals['volumeFactor']), np.min(vals['gbRemoval']), np.min(vals['areaFactor'])) < -1e-12:
                        F.add('C14.factor_nonneg', f'{site}: negative geometric factor over k={ks.tolist()}', factor='sign')
            continue
        # reads: compare with a fresh twin built from the current values
        fresh = NucleationBarrierParameters(site=site, gamma=gamma, gbEnergy=gb)
        reads_after_set += 1
        if o == 'read':
            names = [op['v']]
        else:
            names = READS
        got = {}
        for name in names:
            try:
                a = float(getattr(nb, name))
            except ValueError:
                a = 'ValueError'
            try:
                b = float(getattr(fresh, name))
            except ValueError:
                b = 'ValueError'
            got[name] = a
            cnt['reads'] += 1
            if a != b and not (isinstance(a, float) and isinstance(b, float) and math.isnan(a) and math.isnan(b)):
                F.add('C14.cached_factor', f'op {k}: {name} reads {a!r} after the setter history, a fresh object with gamma={gamma}, gbEnergy={gb}, site={site} gives {b!r}', factor=name)
        # reference formulas / identities at this state
        if gamma and gamma > 0 and gb is not None and all(isinstance(v, float) for v in read_all(fresh).values()):
            kk = gb / (2 * gamma)
            a_, b_, c_ = refs.cf_factors(site, kk) if site not in ('bulk', 'dislocations') else (0.0, 4 * math.pi, 4 * math.pi / 3)
            fr = read_all(fresh)
            cnt['formula_checks'] += 1
            for name, ref in (('gbRemoval', a_), ('areaFactor', b_), ('volumeFactor', c_)):
                if abs(fr[name] - ref) > 1e-10 * max(abs(ref), 1.0):
                    F.add('C14.clemm_fisher', f'{site} k={kk}: {name} = {fr[name]!r}, reference {ref!r}', factor=name)
            if min(fr['gbRemoval'], fr['areaFactor'], fr['volumeFactor']) < -1e-12:
                F.add('C14.factor_nonneg', f'{site} k={kk}: negative geometric factor {fr}', factor='sign')
            if abs(fr['areaFactor'] - 2 * kk * fr['gbRemoval'] - 3 * fr['volumeFactor']) > 1e-9 * max(1.0, fr['areaFactor']):
                F.add('C14.identity', f'{site} k={kk}: areaFactor - 2k*gbRemoval = {fr["areaFactor"] - 2 * kk * fr["gbRemoval"]!r} != 3*volumeFactor = {3 * fr["volumeFactor"]!r}', factor='identity')
            if o in ('rcrit', 'gcrit'):
                dG = op['dG']
                rc = float(nb.Rcrit(dG))
                rc_f = float(fresh.Rcrit(dG))
                if rc != rc_f:
                    F.add('C14.cached_factor', f'op {k}: Rcrit({dG}) = {rc!r} after the setter history, fresh object gives {rc_f!r}', factor='Rcrit')
                # Rcrit = 2 (b gamma - a gamma_gb) / (3 c dG): towards the admissible limit of k all three factors vanish and the quotient is a
                # difference of nearly equal numbers over a tiny one - relative rounding ~ eps / (c / (4 pi / 3))
                cond = 16 * np.finfo(float).eps / max(c_ / (4 * math.pi / 3), 1e-300)
                if abs(rc - 2 * gamma / dG) > (1e-9 + cond) * rc:
                    F.add('C14.rcrit_sphere', f'{site} k={kk}: critical radius {rc!r} differs from the spherical value 2 gamma/dG = {2 * gamma / dG!r}', factor='Rcrit')
                if o == 'gcrit':
                    R = rc * op['rf']
                    g1, g2 = float(nb.Gcrit(dG, R)), float(fresh.Gcrit(dG, R))
                    if g1 != g2:
                        F.add('C14.cached_factor', f'op {k}: Gcrit = {g1!r} after the setter history, fresh object gives {g2!r}', factor='Gcrit')
                    if op['rf'] == 1.0:
                        ref = 16 * math.pi * gamma ** 3 / (3 * dG ** 2) * (c_ / (4 * math.pi / 3))
                        if abs(g1 - ref) > (1e-9 + 3 * cond) * abs(ref):
                            F.add('C14.barrier_sphere_scaled', f'{site} k={kk}: barrier {g1!r} differs from spherical barrier x volumeFactor/(4pi/3) = {ref!r}', factor='Gcrit')
    return reads_after_set >= 3


# ----------------------------------------------------------------------------- (b),(c) in-run
class NucleationMonitor:
    def __init__(self, m, cfg, F, cnt):
        self.m, self.cfg, self.F, self.cnt = m, cfg, F, cnt
        self.sig = set()
        self.stub = cfg['backend'].startswith('stub')
        self.iso = cfg['T']['kind'] == 'const'
        self.VmA = refs.vm_from_spec(cfg['VmA'])[0]
        self.VmB = [refs.vm_from_spec(cfg['phase_params'][p]['VmB'])[0] for p in cfg['phases']]
        nd = cfg.get('nuc_density', {})
        D = nd.get('grainSize', 100) * 1e-6
        A = nd.get('aspectRatio', 1)
        rho = nd.get('dislocationDensity', 5e12)
        nav = refs.AVO / self.VmA
        self.sites = [cfg['phase_params'][p].get('site', 'bulk') for p in cfg['phases']]
        self.k = [cfg.get('gbEnergy', 0.3) / (2 * cfg['phase_params'][p]['gamma']) for p in cfg['phases']]
        self.parents = [[cfg['phases'].index(q) for q in cfg['phase_params'][p].get('parents', [])] for p in cfg['phases']]
        self.prev = {}
        orig = m._calcNucleationSites

        def tapped(t, x, p):
            v = orig(t, x, p)
            self.check_sites(t, x, p, float(v))
            return v
        m._calcNucleationSites = tapped

    def check_sites(self, t, x, p, v):
        F, m = self.F, self.m
        self.cnt['site_checks'] += 1
        self.last_sites = getattr(self, 'last_sites', {})
        self.last_sites[p] = v
        if not (v >= 0) or not math.isfinite(v):
            F.add('C14.sites_nonneg', f't={t}: available nucleation sites of phase {p} = {v!r}', where='_calcNucleationSites')
        site = self.sites[p]
        nav = refs.AVO / self.VmA
        ns = m.matrixParameters.nucleationSites
        # the total site density N0 is configuration (taken from the model); the property is about how it is consumed
        N0 = {'bulk': ns.bulkN0, 'dislocations': ns.dislocationN0, 'grain boundaries': ns.GBareaN0, 'grain edges': ns.GBedgeN0, 'grain corners': ns.GBcornerN0}[site]
        mom = [refs.moments(np.asarray(x[q], dtype=float), np.asarray(m.PBM[q].PSDsize, dtype=float)) for q in range(len(x))]
        occ = 0.0
        for q in range(len(x)):
            if self.sites[q] != site:
                continue
            if site in ('bulk', 'grain corners'):
                occ += mom[q][0]
            elif site == 'dislocations':
                occ += mom[q][1] * nav ** (1 / 3)
            elif site == 'grain boundaries':
                occ += refs.cf_factors(site, self.k[q])[0] * mom[q][2] * nav ** (2 / 3)
            elif site == 'grain edges':
                occ += math.sqrt(1 - self.k[q] ** 2) * mom[q][1] * nav ** (1 / 3)
        par = sum(4 * math.pi * mom[q][2] * (refs.AVO / self.VmB[q]) ** (2 / 3) for q in self.parents[p])
        # ('dislocations' is exempt from the N0-based clauses: kawin resolves that site type through the bulk branch, see DESIGN.md observations)
        if site != 'dislocations' and v > (N0 + par) * (1 + 1e-12):
            F.add('C14.site_budget', f't={t}: available {site} sites for phase {p} = {v!r} exceed the total N0 + parent-surface sites = {N0 + par!r}', site=site, clause='upper')
        if site != 'dislocations' and 'dislocations' not in self.sites:
            # documented rule: all sites - sites used up by every phase nucleating on the same kind of site + sites on parent precipitates
            # (configurations with a dislocation-sited phase are left to the bounds above: that site type resolves through the bulk branch)
            ref = max(N0 - occ + par, 0.0)
            # (N0 - occupied cancels when the sites are nearly used up: rounding of the large terms, not of the small difference, sets the scale)
            if abs(v - ref) > 1e-9 * max(abs(ref), N0 * 1e-12, 1e-300) + 1e-6 + 64 * np.finfo(float).eps * (abs(N0) + abs(occ) + abs(par)):
                F.add('C14.site_budget', f't={t}: available {site} sites = {v!r}, reference N0 - occupied by all phases on this site type + parent sites = {ref!r} (N0={N0!r}, occupied={occ!r}, parent sites={par!r})', site=site, clause='reference')
        # decreases as precipitates occupy sites: if every phase's occupancy moments grew (and no parent surface is involved), the value must not rise
        key = ('sites', p)
        prev = self.prev.get(key)
        cur_m = [(mm[0], mm[1], mm[2]) for mm in mom]
        if prev is not None and not self.parents[p]:
            pv, pm = prev
            if len(pm) == len(cur_m) and all(c[j] >= q_[j] for c, q_ in zip(cur_m, pm) for j in range(3)) and v > pv * (1 + 1e-12) + 1e-6 + 64 * np.finfo(float).eps * (abs(N0) + abs(occ)):
                F.add('C14.site_budget', f't={t}: occupancy of every phase grew but the available {site} sites for phase {p} rose from {pv!r} to {v!r}', site=site, clause='monotone')
        self.prev[key] = (v, cur_m)
        if occ > 0:
            self.sig.add('occupied:' + site)
        if par > 0:
            self.sig.add('parent_sites')

    def on_step(self, m):
        F, cnt = self.F, self.cnt
        pd = m.pData
        n = pd.n
        cnt['steps'] += 1
        T = float(pd.temperature[n])
        for p in range(len(m.phases)):
            dG = float(pd.drivingForce[n, p])
            Rc, Gc, be, J = float(pd.Rcrit[n, p]), float(pd.Gcrit[n, p]), float(pd.impingement[n, p]), float(pd.nucRate[n, p])
            pp = m.precipitateParameters[p]
            for name, v in (('Rcrit', Rc), ('Gcrit', Gc), ('impingement', be), ('nucRate', J)):
                if not math.isfinite(v):
                    F.add('C14.finite', f'step {n} phase {p}: {name} = {v!r}', q=name)
            if dG <= 0:
                if J != 0:
                    F.add('C14.rate_zero_when_undersaturated', f'step {n} phase {p}: driving force {dG!r} <= 0 but nucleation rate {J!r}', q='rate')
                continue
            if be == 0 and J == 0 and Rc == 0 and Gc == 0:
                # the model skips the rest of the nucleation calculation when the impingement rate is zero (backend could not give the
                # precipitate composition); the recorded zeros are then 'not computed' placeholders, not a critical radius
                cnt['skipped_zero_impingement'] += 1
                continue
            cnt['positive_dG_steps'] += 1
            clamped = Rc <= pp.Rmin * (1 + 1e-12)
            gb_site = self.sites[p] in refs.SITE_KMAX
            if Rc < pp.Rmin * (1 - 1e-12):
                F.add('C14.rcrit_min', f'step {n} phase {p}: critical radius {Rc!r} below the minimum radius {pp.Rmin!r} at positive driving force', q='Rcrit')
            if Gc < 0:
                F.add('C14.barrier_nonneg', f'step {n} phase {p}: nucleation barrier {Gc!r} J is negative (site {self.sites[p]}, Rcrit={Rc!r}, clamped to Rmin: {clamped})', clamped=bool(clamped), gb_site=bool(gb_site))
            if be < 0 or J < 0:
                F.add('C14.nonneg', f'step {n} phase {p}: impingement {be!r} / rate {J!r} negative', q='beta_rate')
            # reference relations at this visited state (spherical, unclamped, no strain)
            gamma = self.cfg['phase_params'][self.cfg['phases'][p]]['gamma']
            sphere = self.cfg['phase_params'][self.cfg['phases'][p]].get('shape', 'sphere') == 'sphere'
            if not clamped and sphere:
                cnt['formula_checks'] += 1
                if abs(Rc - 2 * gamma / dG) > 1e-9 * Rc:
                    F.add('C14.rcrit_formula', f'step {n} phase {p}: Rcrit {Rc!r} != 2 gamma / dG = {2 * gamma / dG!r}', q='Rcrit')
                c_ = refs.volume_factor(self.sites[p], gamma, self.cfg.get('gbEnergy', 0.3))
                gref = 16 * math.pi * gamma ** 3 / (3 * dG ** 2) * (c_ / (4 * math.pi / 3))
                if abs(Gc - gref) > 1e-9 * gref:
                    F.add('C14.barrier_formula', f'step {n} phase {p}: barrier {Gc!r} != spherical barrier x volumeFactor/(4pi/3) = {gref!r}', q='Gcrit')
            # incubation factor in [0,1]: recorded rate <= Z beta exp(-G/kT) x sites
            if be > 0 and Rc > 0 and Gc > 0:
                c_ = refs.volume_factor(self.sites[p], gamma, self.cfg.get('gbEnergy', 0.3))
                kB = refs.RGAS / refs.AVO
                Z = math.sqrt(3 * c_ / (4 * math.pi)) * self.VmB[p] * math.sqrt(gamma / (kB * T)) / (2 * math.pi * refs.AVO * Rc * Rc)
                jss = Z * be * math.exp(-Gc / (kB * T))
                # incubation factor in [0,1]: the recorded rate never exceeds steady-state rate per site x available sites
                ns = getattr(self, 'last_sites', {}).get(p)
                if ns is not None:
                    cnt['incubation_checks'] = cnt.get('incubation_checks', 0) + 1
                    if J > jss * ns * (1 + 1e-9) + 1e-300:
                        F.add('C14.incubation_factor', f'step {n} phase {p}: recorded nucleation rate {J!r} exceeds steady-state rate per site {jss!r} x available sites {ns!r} (incubation factor would be {J / max(jss * ns, 1e-300)!r} > 1)', q='incubation')
                # the rate functions themselves at this visited state: incubation factor in [0,1], rising with time; scalar and array calls agree
                if cnt['positive_dG_steps'] % 7 == 1:
                    from kawin.precipitation import NucleationRate as NR
                    tau = float(np.squeeze(NR.incubationTime(be, Z, m.matrixParameters)))
                    z_k = float(np.squeeze(NR.zeldovich(T, Rc, pp)))
                    cnt['function_checks'] = cnt.get('function_checks', 0) + 1
                    if abs(z_k - Z) > 1e-9 * Z:
                        F.add('C14.zeldovich_formula', f'step {n} phase {p}: zeldovich(T={T}, Rcrit={Rc!r}) = {z_k!r}, reference {Z!r}', q='Z')
                    if not math.isfinite(tau) or tau < 0:
                        F.add('C14.finite', f'step {n} phase {p}: incubation time {tau!r}', q='tau')
                    else:
                        times = [tau * f for f in (0.05, 0.3, 1.0, 4.0, 100.0)] if tau > 0 else [1e-3, 1.0, 1e3]
                        rk = [float(np.squeeze(NR.nucleationRate(z_k, be, Gc, T, tau, time=tk))) for tk in times] + [float(np.squeeze(NR.nucleationRate(z_k, be, Gc, T, tau)))]
                        jss_k = z_k * be * math.exp(-Gc / (kB * T))
                        if any(not math.isfinite(r) or r < 0 or r > jss_k * (1 + 1e-12) for r in rk):
                            F.add('C14.incubation_function', f'step {n} phase {p}: nucleationRate at times {times + ["inf"]} = {rk}: not within [0, steady-state rate {jss_k!r}]', q='range')
                        elif any(b < a * (1 - 1e-12) for a, b in zip(rk[:-1], rk[1:])):
                            F.add('C14.incubation_function', f'step {n} phase {p}: nucleationRate falls with time: times {times + ["inf"]} -> {rk}', q='monotone_time')
                        elif abs(rk[-1] - jss_k) > 1e-9 * jss_k:
                            F.add('C14.incubation_function', f'step {n} phase {p}: nucleationRate at infinite time {rk[-1]!r} is not the steady-state rate {jss_k!r}', q='limit')
                        arr = np.asarray(NR.nucleationRate(np.full(len(times), z_k), np.full(len(times), be), np.full(len(times), Gc), np.full(len(times), T), np.full(len(times), tau), time=np.array(times)), dtype=float)
                        if arr.shape != (len(times),) or not np.allclose(arr, rk[:-1], rtol=1e-12, atol=0):
                            F.add('C14.incubation_function', f'step {n} phase {p}: array call of nucleationRate gives {arr.tolist()}, scalar calls {rk[:-1]}', q='array_scalar')
                key = p
                prev = self.prev.get(key)
                # (fixed parameters: with a radius-dependent aspect ratio the shape factor in the barrier changes from step to step)
                fixed_shape = self.cfg['phase_params'][self.cfg['phases'][p]].get('ar') not in ('fn', 'fnb')
                if self.iso and fixed_shape and len(m.elements) == 1 and len(m.phases) == 1 and prev is not None and prev[0] > dG and jss > prev[1] * (1 + 1e-6) and not clamped and prev[2] == T:
                    F.add('C14.rate_monotone_in_dG', f'step {n} phase {p}: driving force fell from {prev[0]!r} to {dG!r} but the steady-state rate per site rose from {prev[1]!r} to {jss!r}', q='Jss')
                self.prev[key] = (dG, jss, T)
                self.sig.add('nucleating')


def execute(rec):
    F = core.Failures(cap=20)
    D = core.Digest()
    if rec['kind'] == 'machine':
        cnt = {'ops': 0, 'reads': 0, 'formula_checks': 0}
        sig = {rec['holder']}
        nt = run_machine(rec, F, cnt, sig)
        return core.result(F, sig='machine:' + ','.join(sorted(sig)), nontrivial=nt, counters=cnt, digest='')
    cnt = {k: 0 for k in ('steps', 'site_checks', 'positive_dG_steps', 'formula_checks', 'runs_real', 'runs_stub', 'sim_time', 'capped', 'skipped_zero_impingement')}
    cfg = rec['cfg']
    m, backend = W.build_model(cfg, keep_log=False)
    cnt['runs_real' if cfg['backend'].startswith('real_') else 'runs_stub'] = 1
    mon = NucleationMonitor(m, cfg, F, cnt)
    obs = W.Observer([mon], rec.get('cap', 250))
    m.addCouplingModel(obs)
    info = W.run_ops(m, rec['ops'], obs, F=None)
    if info['exception'] is not None:
        raise core.Inconclusive(f'exception {info["exception"][0]} at {info["exception"][2]}')
    pd = m.pData
    cnt['sim_time'] = float(pd.time[pd.n])
    cnt['capped'] = int(info['capped'])
    D.add(*[float(t) for t in pd.time], np.asarray(pd.nucRate, dtype=float))
    sig = f"run:{cfg['backend']}:{len(cfg['phases'])}:" + ','.join(sorted(set(mon.sites))) + ':' + ','.join(sorted(mon.sig))
    return core.result(F, sig=sig, nontrivial=cnt['positive_dG_steps'] >= 5, counters=cnt, digest=D.hex())


def shrink_candidates(rec):
    if rec['kind'] == 'machine':
        for c in core.ddmin_candidates(rec['ops']):
            r = copy.deepcopy(rec); r['ops'] = c; yield r
        if rec['holder'] != 'barrier':
            r = copy.deepcopy(rec); r['holder'] = 'barrier'; yield r
        return
    for r in W.shrink_run_record(rec):
        yield r
    if rec['cfg'].get('nuc_density'):
        r = copy.deepcopy(rec); del r['cfg']['nuc_density']; yield r
