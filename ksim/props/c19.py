"""C19 - stopping conditions stop the run when, and only when, they are met; TTP calculator.

World: precipitation worlds (stub 1-2 phases, real Al-Zr) with 1-4 stopping conditions drawn from the
six kinds x both inequalities x phase/element selection x mode or/and; thresholds are placed from a
pilot run of the same record at chosen steps (early, late, never, already met at step 0).
Oracle: RefStop walks the *recorded* history of the run under test.
TTP: TTPCalculator over 3-5 temperatures, serial and with a fake pool that executes the work items in
a seeded permutation (in-process), each temperature's run recorded by an observer and judged by RefStop.
"""
import math, copy, io, contextlib, random
import numpy as np
from ksim import core, refs
from ksim import precipworld as W
from kawin.precipitation.StoppingConditions import (Inequality, VolumeFractionCondition, AverageRadiusCondition, DrivingForceCondition,
                                                    NucleationRateCondition, PrecipitateDensityCondition, CompositionCondition)
from kawin.precipitation.TimeTemperaturePrecipitation import TTPCalculator

ID = 'C19'
LEVEL = 'exploration'
RULE = ('Runs are (a) one precipitation record + 1-4 conditions (kind, inequality, phase/element, or/and) whose thresholds are taken from a pilot run of the same record at seeded '
        'step positions (early / late / never / already met initially), followed by a second solve call after a stop; (b) TTPCalculator runs over 3-5 temperatures with pool=None and with a '
        'fake pool executing in a seeded permutation. Non-trivial = at least one condition latched by a genuine crossing and at least 10 steps (a), at least 2 temperatures with a latched condition (b); '
        'distinct = distinct record digest; signature = (kind, modes, outcomes: stopped early / ran to end / never / already).')
ASSUMPTIONS = ['RefStop is evaluated on the recorded history of the run under test (latched at the first step the inequality holds; linear interpolation between that step and the previous one).',
               'For a condition already satisfied by the initial state the reported time is required to lie within the first step.',
               'TTP entries are compared with RefStop applied to the history of the run the calculator performs for that temperature (not with freshly constructed models: reset() re-creates the PBMs with default grids).']
COMPONENTS = {'real': ['kawin.precipitation.StoppingConditions', 'kawin.precipitation.KWNBase.postProcess', 'kawin.precipitation.TimeTemperaturePrecipitation.TTPCalculator', 'kawin.solver.*', 'full KWN model'],
              'stub': ['analytic backend in stub runs', 'FakePool (in-process, seeded execution order) in place of a multiprocessing pool']}

KINDS = ['volfrac', 'radius', 'dG', 'nucrate', 'density', 'composition']
CLS = {'volfrac': VolumeFractionCondition, 'radius': AverageRadiusCondition, 'dG': DrivingForceCondition, 'nucrate': NucleationRateCondition, 'density': PrecipitateDensityCondition}
ATTR = {'volfrac': 'volFrac', 'radius': 'Ravg', 'dG': 'drivingForce', 'nucrate': 'nucRate', 'density': 'precipitateDensity'}


def plan(tier):
    if tier == 'quick':
        return dict(runs=300, batch=3, hard_timeout=900, soft_timeout=300)
    return dict(runs=12000, batch=8, hard_timeout=2400, soft_timeout=600)


def generate(rng, tier, index):
    if index % 8 == 7:
        cfg = W.gen_stub_config(rng, nel=rng.choice([1, 2]), nphase=1, allow_gb=False, allow_shapes=False)
        conds = []
        for _ in range(rng.randint(1, 3)):
            conds.append({'kind': rng.choice(['volfrac', 'radius', 'density', 'nucrate']), 'q': rng.choice([0.2, 0.5, 0.8, 'never', 'revisit']), 'phase': None})
        T0 = cfg['T']['T']
        return {'kind': 'ttp', 'cfg': cfg, 'conds': conds, 'Tlow': T0 - rng.choice([10, 20]), 'Thigh': T0 + rng.choice([0, 10]), 'Tsteps': rng.randint(3, 5),
                'maxTime': 10 ** rng.uniform(-2, -1), 'perm_seed': rng.randint(0, 10 ** 6), 'cap': 120, 'pilot_T': T0}
    rec = W.gen_run_record(rng, real_frac=0.06, real_kinds=('real_alzr',), nphase=rng.choice([1, 1, 2]))
    rec['kind'] = 'run'
    cfg = rec['cfg']
    conds = []
    for _ in range(rng.randint(1, 4)):
        kind = rng.choice(KINDS)
        c = {'kind': kind, 'q': rng.choice([0.15, 0.3, 0.5, 0.7, 0.9, 'never', 'already', 'revisit', 'revisit']), 'mode': rng.choice(['or', 'or', 'and'])}
        if kind == 'composition':
            c['element'] = rng.choice([None] + list(cfg['elements']))
        else:
            c['phase'] = rng.choice([None] + list(cfg['phases']))
        conds.append(c)
    if any(c['q'] == 'revisit' for c in conds):
        # a condition that is met and later no longer met is only observable while the run goes on: and-mode with a late companion
        for c in conds:
            if c['q'] == 'revisit':
                c['mode'] = 'and'
        comp = {'kind': rng.choice(KINDS), 'q': rng.choice(['never', 0.9]), 'mode': 'and'}
        comp['element' if comp['kind'] == 'composition' else 'phase'] = None
        conds = [c for c in conds if not (c['mode'] == 'or' and c['q'] != 'never')][:3] + [comp]
    rec['conds'] = conds
    rec['second_call'] = rng.random() < 0.5
    return rec


def prepare(tier, recs):
    W.preload([r['cfg']['backend'] for r in recs])


def series_of(m, cond):
    """callable n -> monitored value, for a condition spec, on model m's recorded history"""
    if cond['kind'] == 'composition':
        e = 0 if cond.get('element') is None else list(m.elements).index(cond['element'])
        return lambda n: float(m.pData.composition[n, e])
    p = 0 if cond.get('phase') is None else list(m.phases).index(cond['phase'])
    name = ATTR[cond['kind']]
    return lambda n: float(getattr(m.pData, name)[n, p])


def place_threshold(cond, ser, N):
    """threshold + inequality from the pilot series; returns (greater: bool, value)"""
    vals = [ser(n) for n in range(N + 1)]
    q = cond['q']
    lo, hi = min(vals), max(vals)
    span = max(hi - lo, abs(hi) * 1e-3, 1e-30)
    if q == 'never':
        return True, hi + 10 * span
    if q == 'already':
        return True, vals[0] - span
    if q == 'revisit':
        # a threshold the quantity crosses and later crosses back (met, then no longer met): exercises the latch
        order = sorted(range(1, N + 1), key=lambda j: abs(j - N // 3))
        for j in order[:40]:
            if vals[j] == vals[j - 1]:
                continue
            v = 0.5 * (vals[j] + vals[j - 1])
            g = vals[j] > vals[j - 1]
            later = vals[j + 1:]
            if any(((x > v) != g) for x in later):
                return g, v
        q = 0.3
    k = max(1, min(N, int(round(q * N))))
    # find a genuine change near k
    for j in list(range(k, N + 1)) + list(range(k - 1, 0, -1)):
        if vals[j] != vals[j - 1]:
            return (vals[j] > vals[j - 1]), 0.5 * (vals[j] + vals[j - 1])
    return True, hi + 10 * span


def make_condition(cond, greater, value):
    ineq = Inequality.GREATER_THAN if greater else Inequality.LESSER_THAN
    if cond['kind'] == 'composition':
        return CompositionCondition(ineq, value, element=cond.get('element'))
    return CLS[cond['kind']](ineq, value, phase=cond.get('phase'))


def check_history(times, sers, specs, objs, F, cnt, label, expect_stop_at_end=True, ended_n=None, completed=None, t_end_req=None):
    """RefStop over a recorded history; compares latches/times with the condition objects."""
    rs = refs.RefStop([{'series': s, 'greater': g, 'value': v, 'mode': sp.get('mode', 'and')} for s, (g, v), sp in zip(sers, specs[1], specs[0])])
    stop_n = None
    N = len(times) - 1
    for n in range(1, N + 1):
        if rs.step(n, times):
            stop_n = n
            break
    # initial state already satisfying: kawin tests from step 1 on; RefStop.step(n>=1) latches at step 1 as well
    outcome = 'stopped' if stop_n is not None else 'ran_to_end'
    if stop_n is not None and stop_n != N:
        F.add('C19.stop_step', f'{label}: conditions were met at step {stop_n} (t={times[stop_n]!r}) but the run continued to step {N} (t={times[N]!r})', why='late')
    if stop_n is None and completed is False:
        F.add('C19.stop_step', f'{label}: no or-condition / not all and-conditions were met but the run stopped at step {N} (t={times[N]!r}) before the requested end {t_end_req!r}', why='early')
    for i, (obj, sp) in enumerate(zip(objs, specs[0])):
        lat, tm = rs.latched[i], rs.time[i]
        if bool(obj.isSatisfied()) != lat:
            F.add('C19.latch', f'{label}: condition {i} ({sp["kind"]}) reports satisfied={obj.isSatisfied()}, reference over the recorded history says {lat}', why='latch')
            continue
        st = float(obj.satisfiedTime())
        cnt['conditions_checked'] += 1
        if not lat:
            if st != -1:
                F.add('C19.unsatisfied_time', f'{label}: condition {i} ({sp["kind"]}) never met but reports time {st!r} instead of -1', why='time')
            continue
        # latch step
        k = None
        g, v = specs[1][i]
        for n in range(1, N + 1):
            val = sers[i](n)
            if (val > v) if g else (val < v):
                k = n
                break
        already = ((sers[i](0) > v) if g else (sers[i](0) < v))
        if already:
            cnt['already_met'] += 1
        else:
            cnt['genuine_crossings'] += 1
        lo, hi = times[k - 1], times[k]
        if not (lo - 1e-12 * abs(hi) <= st <= hi + 1e-12 * abs(hi)):
            F.add('C19.time_in_step', f'{label}: condition {i} ({sp["kind"]} {"<>"[g]} {v!r}) latched on step {k} [{lo!r},{hi!r}] but reports time {st!r}', already_met=bool(already))
        elif not already and abs(st - tm) > 1e-9 * max(abs(tm), 1e-300):
            F.add('C19.interpolated_time', f'{label}: condition {i} ({sp["kind"]}) reports {st!r}, linear interpolation over the crossing step gives {tm!r}', why='interp')
    return outcome


class FakePool:
    def __init__(self, seed):
        self.rng = random.Random(seed)
        self.order = None

    def map(self, fn, items):
        items = list(items)
        order = list(range(len(items)))
        self.rng.shuffle(order)
        self.order = order
        out = [None] * len(items)
        for i in order:
            out[i] = fn(items[i])
        return out


class TTPRecorder:
    """Observer on the calculator's model: one history per run (a run starts when pData.n == 1)."""

    def __init__(self):
        self.runs = []

    def on_step(self, m):
        n = m.pData.n
        if n == 1:
            self.runs.append({'T': float(m.pData.temperature[0]), 'x0': np.array(m.pData.composition[0], copy=True), 't0': float(m.pData.time[0]),
                              'N0': [float(np.sum(b.PSD)) for b in m.PBM] if False else None, 'm': m})
        self.runs[-1]['snap'] = {k: np.array(getattr(m.pData, k), copy=True) for k in ('time', 'volFrac', 'Ravg', 'drivingForce', 'nucRate', 'precipitateDensity', 'composition')}


class SnapModel:
    """Minimal object exposing pData / phases / elements from a snapshot, for series_of."""
    class P:
        pass

    def __init__(self, snap, phases, elements):
        self.pData = SnapModel.P()
        for k, v in snap.items():
            setattr(self.pData, k, v)
        self.phases, self.elements = phases, elements


def run_ttp(rec, F, cnt):
    cfg = rec['cfg']
    # pilot at the reference temperature to place the thresholds
    pm, _ = W.build_model(cfg, keep_log=False)
    pobs = W.Observer([], rec['cap'])
    pm.addCouplingModel(pobs)
    W.run_ops(pm, [{'op': 'solve', 'T': rec['maxTime'], 'it': 'rk4'}], pobs)
    specs = []
    for c in rec['conds']:
        specs.append(place_threshold(c, series_of(pm, c), pm.pData.n))
    tables = {}
    for mode in ('serial', 'pool'):
        m, _ = W.build_model(cfg, keep_log=False)
        conds = [make_condition(c, g, v) for c, (g, v) in zip(rec['conds'], specs)]
        calc = TTPCalculator(m, conds)
        recorder = TTPRecorder()
        obs = W.Observer([recorder], 10 ** 9)
        m.addCouplingModel(obs)
        pool = FakePool(rec['perm_seed']) if mode == 'pool' else None
        with contextlib.redirect_stdout(io.StringIO()):
            calc.calculateTTP(rec['Tlow'], rec['Thigh'], rec['Tsteps'], rec['maxTime'], pool=pool)
        tab = np.array(calc.transformationTimes, dtype=float)
        tables[mode] = tab
        temps = np.linspace(rec['Tlow'], rec['Thigh'], rec['Tsteps'])
        order = pool.order if pool is not None else list(range(len(temps)))
        cnt['ttp_runs'] += len(recorder.runs)
        if len(recorder.runs) != len(temps):
            F.add('C19.ttp_runs', f'TTP ({mode}): {len(recorder.runs)} runs recorded for {len(temps)} temperatures', why='count')
            continue
        latched_T = 0
        for j, run in enumerate(recorder.runs):
            ti = order[j]
            label = f'TTP {mode} T={temps[ti]:.2f}'
            if abs(run['T'] - temps[ti]) > 1e-9:
                F.add('C19.ttp_reset', f'{label}: run started at temperature {run["T"]!r}', why='temperature')
            if run['t0'] != 0.0 or not np.array_equal(run['x0'], np.atleast_1d(np.array(cfg['x0'], dtype=float))):
                F.add('C19.ttp_reset', f'{label}: run started at t={run["t0"]!r}, composition {run["x0"]} (expected 0 and {cfg["x0"]})', why='initial_state')
            sm = SnapModel(run['snap'], list(cfg['phases']), list(cfg['elements']))
            times = [float(t) for t in sm.pData.time]
            sers = [series_of(sm, c) for c in rec['conds']]
            rs = refs.RefStop([{'series': s, 'greater': g, 'value': v, 'mode': 'and'} for s, (g, v) in zip(sers, specs)])
            for n in range(1, len(times)):
                if rs.step(n, times):
                    break
            for i in range(len(conds)):
                want = rs.time[i] if rs.latched[i] else -1.0
                got = float(tab[ti, i])
                cnt['ttp_entries'] += 1
                if rs.latched[i]:
                    latched_T += 1
                ok = (got == -1.0) if want == -1.0 else (got != -1.0 and abs(got - want) <= 1e-9 * max(abs(want), 1e-300))
                # a condition already met by the initial state is only required to report a time within the first step
                g, v = specs[i]
                already = (sers[i](0) > v) if g else (sers[i](0) < v)
                if not ok and already and got != -1.0 and times[0] <= got <= times[1]:
                    ok = True
                if not ok:
                    F.add('C19.ttp_entry', f'{label}: condition {i} ({rec["conds"][i]["kind"]}) table entry {got!r}, reference over that run\'s history {want!r}', already_met=bool(already))
        cnt['ttp_latched'] += latched_T
    if 'serial' in tables and 'pool' in tables and tables['serial'].shape == tables['pool'].shape:
        if not np.array_equal(tables['serial'], tables['pool']):
            F.add('C19.ttp_order_dependence', f'TTP table differs between serial execution and a permuted pool execution: {tables["serial"].tolist()} vs {tables["pool"].tolist()}', why='order')


def execute(rec):
    F = core.Failures()
    D = core.Digest()
    cfg = rec['cfg']
    if rec['kind'] == 'ttp':
        cnt = {k: 0 for k in ('ttp_runs', 'ttp_entries', 'ttp_latched', 'conditions_checked', 'already_met', 'genuine_crossings')}
        try:
            run_ttp(rec, F, cnt)
        except AttributeError as e:
            F.add('C19.exception.AttributeError', f'TTP run raised AttributeError: {e}', exc='AttributeError')
        return core.result(F, sig='ttp:' + cfg['backend'], nontrivial=cnt['ttp_latched'] >= 2, counters=cnt, digest='')
    cnt = {k: 0 for k in ('steps', 'conditions_checked', 'already_met', 'genuine_crossings', 'stopped_early', 'ran_to_end', 'second_calls', 'runs_real', 'runs_stub')}
    cnt['runs_real' if cfg['backend'].startswith('real_') else 'runs_stub'] = 1
    # ---- pilot (no conditions)
    if cfg['backend'].startswith('real_'):
        W.real_backend(cfg['backend']).clearCache()
    pm, _ = W.build_model(cfg, keep_log=False)
    pobs = W.Observer([], rec.get('cap', 250))
    pm.addCouplingModel(pobs)
    pinfo = W.run_ops(pm, rec['ops'], pobs)
    if pinfo['exception'] is not None:
        raise core.Inconclusive('pilot raised ' + pinfo['exception'][0])
    N = pm.pData.n
    if N < 3:
        raise core.Inconclusive('pilot too short')
    specs = [place_threshold(c, series_of(pm, c), N) for c in rec['conds']]
    # ---- run under test
    if cfg['backend'].startswith('real_'):
        W.real_backend(cfg['backend']).clearCache()
    m, _ = W.build_model(cfg, keep_log=False)
    objs = [make_condition(c, g, v) for c, (g, v) in zip(rec['conds'], specs)]
    for o, c in zip(objs, rec['conds']):
        m.addStoppingCondition(o, c['mode'])
    obs = W.Observer([], rec.get('cap', 250) + 5)
    m.addCouplingModel(obs)
    def stop_after_early_end(ci, call):
        # a stop request ends the current solve call; the schedule of further calls is not continued then
        if call['ended'] == 'complete' and float(m.pData.time[m.pData.n]) != call['t_end_req']:
            return 'break'
        # the stop may coincide with the requested end of the call: decide from the latched conditions
        ors = [o.isSatisfied() for o, c in zip(objs, rec['conds']) if c['mode'] == 'or']
        ands = [o.isSatisfied() for o, c in zip(objs, rec['conds']) if c['mode'] != 'or']
        if any(ors) or (ands and all(ands)):
            return 'break'
    info = W.run_ops(m, rec['ops'], obs, F=F, prefix='C19', on_call_end=stop_after_early_end)
    cnt['steps'] = m.pData.n
    if info['exception'] is not None:
        return core.result(F, sig='exception', nontrivial=False, counters=cnt)
    times = [float(t) for t in m.pData.time]
    if info['capped'] and len(times) > 1:
        # the harness' step cap is raised from the coupling slot, which the model calls AFTER recording the step and BEFORE polling its
        # stopping conditions: the last recorded step was never shown to the conditions and is not part of the reference history
        times = times[:-1]
    sers = [series_of(m, c) for c in rec['conds']]
    last = info['calls'][-1]
    completed_all = (not info['capped']) and len(info['calls']) == len([o for o in rec['ops'] if o['op'] == 'solve']) and all(times[c['n1']] == c['t_end_req'] for c in info['calls'])
    # a stop ends the *current* solve call; the next call of the schedule then starts (and stops again at once if latched)
    outcome = check_history(times[:info['calls'][0]['n1'] + 1] if False else times, sers, (rec['conds'], specs), objs, F, cnt, 'run',
                            completed=None if info['capped'] else (times[-1] == last['t_end_req']), t_end_req=last['t_end_req'])
    cnt['stopped_early' if outcome == 'stopped' else 'ran_to_end'] += 1
    # ---- a second solve after a stop does not un-latch
    if rec.get('second_call') and outcome == 'stopped' and not info['capped']:
        before = [(o.isSatisfied(), o.satisfiedTime()) for o in objs]
        n_before = m.pData.n
        try:
            m.solve(rec['ops'][-1]['T'], solverType=W.ITER[rec['ops'][-1]['it']], minDtFrac=rec['ops'][-1].get('minf', 1e-8))
        except W.StepCap:
            pass
        cnt['second_calls'] += 1
        after = [(o.isSatisfied(), o.satisfiedTime()) for o in objs]
        for i, (b, a) in enumerate(zip(before, after)):
            if b[0] and (not a[0] or a[1] != b[1]):
                F.add('C19.unlatched', f'condition {i} was met at {b[1]!r}; after another solve call it reports satisfied={a[0]} time={a[1]!r}', why='unlatch')
    D.add(*times, *[float(o.satisfiedTime()) for o in objs])
    sig = 'run:' + cfg['backend'] + ':' + ','.join(sorted(set(c['mode'] for c in rec['conds']))) + ':' + outcome + (':already' if cnt['already_met'] else '') + (':cross' if cnt['genuine_crossings'] else '')
    return core.result(F, sig=sig, nontrivial=cnt['genuine_crossings'] >= 1 and cnt['steps'] >= 10, counters=cnt, digest=D.hex())


def shrink_candidates(rec):
    for c in core.ddmin_candidates(rec['conds']):
        if c:
            r = copy.deepcopy(rec); r['conds'] = c; yield r
    if rec['kind'] == 'run':
        for r in W.shrink_run_record(rec):
            yield r
        if rec.get('second_call'):
            r = copy.deepcopy(rec); r['second_call'] = False; yield r
    else:
        if rec['Tsteps'] > 2:
            r = copy.deepcopy(rec); r['Tsteps'] = rec['Tsteps'] - 1; yield r
