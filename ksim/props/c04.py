"""C04 - diffusion conserves every component and honours boundary conditions.

World: real kawin SinglePhaseModel / HomogenizationModel (ksim.diffworld) with a synthetic or real
diffusivity / mobility provider.  Schedule: profiles from all six builders, meshes, per element and
side a seeded mix of closed, non-zero flux (both signs) and fixed-composition conditions, temperature
constant / break points / function of (z,t), iterator per call, 1-4 consecutive solve calls, cache
on/off.  Oracle: flux-balance ledger per step from the tapped boundary fluxes and the iterator
stage weights; boundary-flux expectation per condition type; fixed-composition nodes bitwise constant
across steps AND across solve calls; bounds; recorded history.
"""
import math, copy
import numpy as np
from ksim import core
from ksim import diffworld as DW
from ksim import solverworld as sw

ID = 'C04'
LEVEL = 'exploration'
RULE = ('Each run = seeded diffusion configuration (single-phase binary/ternary/quaternary with synthetic D(x,T) matrix, homogenization with synthetic 1-3 phase mobility sets, '
        'a few real Ni-Cr-Al / Fe-Cr-Ni runs) x boundary-condition mix x temperature field x 1-4 solve calls of k stability-limited steps each (k in 5..150) with Euler or RK4. '
        'A quarter of the synthetic runs are preceded, in the same process, by another model with the same element names and open boundaries (cross-instance history). '
        'Non-trivial = at least 10 ledger-checked steps; distinct = distinct record digest; signature = (model, provider, elements, BC kinds present, T kind, iterators, several calls, clip seen).')
ASSUMPTIONS = ['Ledger compares the pre-clip state handed to postProcess with dt * sum_s w_s (J_left,s - J_right,s)/dz from the tapped fluxes (w = 1 for Euler; 1/6,2/6,2/6,1/6 for RK4); '
               'steps on which the documented clip to [minComposition, 1-minComposition] changed a value are exempt and counted.',
               'Tolerance 64 eps x N x (max|x| + dt max|J|/dz).', 'Expected boundary flux: the user value for a flux condition, the neighbouring interior face flux for a composition condition (bitwise).']
COMPONENTS = {'real': ['kawin.diffusion.Diffusion.DiffusionModel', 'kawin.diffusion.SinglePhase', 'kawin.diffusion.Homogenization', 'kawin.diffusion.DiffusionParameters (BoundaryConditions, CompositionProfile, TemperatureParameters, HashTable)',
                       'kawin.diffusion.HomogenizationParameters', 'kawin.solver.*', 'kawin.thermo + pycalphad in real-provider runs'],
              'stub': ['synthetic interdiffusivity provider / synthetic per-phase mobility provider (in place of _computeSingleMobility) in synthetic runs']}


def plan(tier):
    if tier == 'quick':
        return dict(runs=800, batch=4, hard_timeout=900, soft_timeout=300)
    return dict(runs=20000, batch=10, hard_timeout=2400, soft_timeout=600)


def generate(rng, tier, index):
    cfg = DW.gen_config(rng)
    rec = {'cfg': cfg, 'ops': DW.gen_ops(rng, real=cfg['provider'] != 'synth'), 'cap': 400}
    if cfg['provider'] == 'synth' and rng.random() < 0.25:
        # history of the process, not of the model: another model with the same element names and open boundaries was
        # built first; the model under test (boundaries as requested in cfg) must not inherit anything from it
        pre = copy.deepcopy(cfg)
        pre['bcs'] = {el: {'L': ['comp', round(rng.uniform(0.3, 0.6) / (len(cfg['all_elements']) - 1), 4)], 'R': ['flux', 10 ** rng.uniform(-12, -9)]} for el in cfg['all_elements'][1:]}
        rec['pre'] = pre
    return rec


def prepare(tier, recs):
    DW.preload([r['cfg']['provider'] for r in recs])


def run_and_check(rec, F, cnt, prefix='C04', check_temp=True):
    cfg0 = rec['cfg']
    dt0 = DW.pilot_dt(cfg0)
    if not (math.isfinite(dt0) and dt0 > 0):
        raise core.Inconclusive('non-finite stability step from the initial state (undefined mobilities under this averaging rule)')
    total = sum(o['k'] for o in rec['ops'] if o['op'] == 'solve') * dt0
    cfg = DW.resolve_schedule(cfg0, total)
    m, info = DW.build(cfg)
    flux, post = DW.FluxTap(m), DW.PostTap(m)
    ttap = DW.TempTap(m.temperatureParameters)
    m.temperatureParameters = ttap
    obs = DW.CapObserver(rec.get('cap', 400))
    m.addCouplingModel(obs)
    els = list(cfg['all_elements'])[1:]
    N, dz = cfg['N'], m.dz
    sig = set()
    closed = all(cfg['bcs'].get(e, {'L': ['flux', 0.0], 'R': ['flux', 0.0]})[s] == ['flux', 0.0] for e in els for s in ('L', 'R'))
    x_ref0 = None
    dirichlet0 = None
    fptr = 0
    tptr = 0
    capped = False
    left_domain = False
    D = core.Digest()
    minC = m.constraints.minComposition
    for ci, op in enumerate(rec['ops']):
        if op['op'] != 'solve':
            continue
        w = sw.RecordingIterator(sw.ITER_FN[op['it']])
        s0 = len(post.steps)
        t_start = float(m.t)
        try:
            m.solve(op['k'] * dt0, solverType=w, **({'minDtFrac': op['minf']} if op.get('minf') else {}))
        except DW.StepCap:
            capped = True
        except Exception as e:  # noqa
            # C04 states conservation and boundary conditions, not crash freedom: the model's own validation ("compositions sum up to
            # above 1" after a flux condition pumped solute in) or a backend failure ends the run; what was observed so far is still checked
            cnt['ended_by_exception'] = cnt.get('ended_by_exception', 0) + 1
            cnt['exception:' + type(e).__name__] = cnt.get('exception:' + type(e).__name__, 0) + 1
            capped = True
        sig.add(op['it'])
        if ci > 0:
            sig.add('multi_call')
        wts = DW.WEIGHTS[op['it']]
        nsteps = len(post.steps) - s0
        for j in range(nsteps):
            time, x_old, pre, x_new = post.steps[s0 + j]
            t_step, dt, stages = w.steps[j]
            calls = flux.calls[fptr:fptr + len(stages)]
            fptr += len(stages)
            tlog = ttap.log[tptr:tptr + len(stages)]
            tptr += len(stages)
            cnt['steps'] += 1
            if x_ref0 is None:
                x_ref0 = x_old.copy()
                dirichlet0 = {}
                for ei, e in enumerate(els):
                    bc = cfg['bcs'].get(e)
                    if bc and bc['L'][0] == 'comp':
                        dirichlet0[(ei, 0)] = x_old[ei, 0]
                    if bc and bc['R'][0] == 'comp':
                        dirichlet0[(ei, N - 1)] = x_old[ei, N - 1]
                    # the fixed node holds the PRESCRIBED composition (less the documented shift of the initial profile away from 0 and 1)
                    for side, node in (('L', 0), ('R', N - 1)):
                        if bc and bc[side][0] == 'comp':
                            v = float(bc[side][1])
                            want = v - len(cfg['all_elements']) * minC if v > minC else minC
                            if abs(float(x_old[ei, node]) - want) > 4 * np.spacing(max(abs(want), 1e-300)):
                                F.add(prefix + '.dirichlet_value', f'element {e}: node {node} has a fixed-composition condition {v!r} but starts the run at {float(x_old[ei, node])!r} (expected {want!r})', side=side)
            # the state is advanced over exactly the recorded time increment: the ledger below speaks about the step from the previous
            # recorded time to this one, so the dt the iterator integrated over must be that increment
            t_prev = post.steps[s0 + j - 1][0] if j > 0 else t_start
            # (the solver treats a step that covers the remaining time up to 1e-10 of it as the final step and lands on the end time)
            if abs((time - t_prev) - dt) > 8 * np.spacing(max(abs(time), abs(dt))) + 2e-10 * abs(dt):
                F.add(prefix + '.step_clock', f'call {ci} step {j}: the state was integrated over dt={dt!r} but the recorded time advanced from {t_prev!r} to {time!r} ({time - t_prev!r})', where='solver')
            if len(calls) != len(wts):
                F.add(prefix + '.stage_count', f'call {ci} step {j}: {len(calls)} flux evaluations for iterator {op["it"]}', where='iterator')
                continue
            # --- temperature handed to the flux computation (C13, diffusion part)
            if check_temp:
                for (tt, Tarr), (tf, _) in zip(tlog, calls):
                    ref = DW.ref_temp(cfg['T'], m.z, tt)
                    cnt['temp_checks'] += 1
                    if Tarr.shape != ref.shape or np.max(np.abs(Tarr - ref)) > 8 * np.finfo(float).eps * np.max(np.abs(ref)):
                        F.add('C13.diffusion_temperature', f'call {ci} step {j}: temperature field handed to the flux computation at t={tt!r} differs from the schedule (max dev {np.max(np.abs(Tarr - ref)) if Tarr.shape == ref.shape else "shape"})', kind=cfg['T']['kind'])
            # --- boundary fluxes per condition type
            for ei, e in enumerate(els):
                bc = cfg['bcs'].get(e, {'L': ['flux', 0.0], 'R': ['flux', 0.0]})
                for (tf, J) in calls:
                    for side, col, nb in (('L', 0, 1), ('R', -1, -2)):
                        kind, val = bc[side]
                        want = val if kind == 'flux' else J[ei, nb]
                        if J[ei, col] != want:
                            F.add(prefix + '.boundary_flux', f'call {ci} step {j}: element {e} {side} boundary flux {J[ei, col]!r}, expected {want!r} for a {kind} condition', side=side, kind=kind)
            # --- ledger
            clipped = not np.array_equal(pre, x_new)
            if clipped:
                cnt['clip_steps'] += 1
                sig.add('clip')
            else:
                for ei, e in enumerate(els):
                    lhs = float(np.sum(pre[ei]) - np.sum(x_old[ei]))
                    rhs = dt * sum(wk * (J[ei, 0] - J[ei, -1]) for wk, (tf, J) in zip(wts, calls)) / dz
                    Jmax = max(float(np.max(np.abs(J[ei]))) for (tf, J) in calls)
                    tol = 64 * np.finfo(float).eps * N * (float(np.max(np.abs(x_old[ei]))) + dt * Jmax / dz) + 1e-300
                    cnt['ledger_checks'] += 1
                    if abs(lhs - rhs) > tol:
                        F.add(prefix + '.ledger', f'call {ci} step {j} element {e}: mesh sum changed by {lhs!r}, boundary fluxes give dt*(J_L-J_R)/dz = {rhs!r} (tol {tol:.2e})', element_index=ei)
                # --- fixed-composition nodes
                for (ei, node), v0 in dirichlet0.items():
                    if x_new[ei, node] != v0:
                        F.add(prefix + '.dirichlet', f'call {ci} step {j}: fixed-composition node {node} of element {els[ei]} is {x_new[ei, node]!r}, was {v0!r} after the first setup', when='step')
            # --- a flux condition can pump the solutes past sum(x) = 1 (the model validates this only at the next setup):
            #     from then on the state is outside the admissible domain and the run is no longer judged
            if not np.all(np.isfinite(x_new)):
                # a non-finite profile (steps forced above the stability limit, undefined mobilities) is outside what C04 states: stop judging
                cnt['nonfinite_state'] = cnt.get('nonfinite_state', 0) + 1
                capped = True
                left_domain = True
                break
            if np.any(np.sum(x_new, axis=0) >= 1 - minC):
                cnt['left_admissible_domain'] = cnt.get('left_admissible_domain', 0) + 1
                capped = True
                left_domain = True
                break
            # --- bounds
            if np.any(x_new < minC) or np.any(x_new > 1 - minC) or not np.all(np.isfinite(x_new)):
                F.add(prefix + '.bounds', f'call {ci} step {j}: composition outside [minComposition, 1-minComposition]: min {np.min(x_new)!r} max {np.max(x_new)!r}', where='step')
        # --- across solve calls: the state a call starts from is the state the previous call ended with
        if nsteps and s0 > 0:
            prev_end = post.steps[s0 - 1][3]
            start = post.steps[s0][1]
            if not np.array_equal(prev_end, start):
                dsum = float(np.sum(start) - np.sum(prev_end))
                F.add(prefix + '.call_seam', f'solve call {ci} started from a different state than call {ci - 1} ended with (mesh sum differs by {dsum!r}, max node change {np.max(np.abs(start - prev_end))!r})', where='setup')
        if nsteps:
            D.add(ci, float(m.t), np.ascontiguousarray(m.x))
        if capped:
            break
        if float(m.t) != t_start + op['k'] * dt0:
            F.add(prefix + '.end_time', f'solve call {ci} ended at {m.t!r}, requested {t_start + op["k"] * dt0!r}', where='solver')
    # --- closed system: cumulative drift
    # (only for runs judged to their end: after a domain exit the model keeps stepping, and clipping, beyond the last judged step)
    if closed and x_ref0 is not None and cnt['clip_steps'] == 0 and not left_domain:
        sig.add('closed')
        for ei, e in enumerate(els):
            drift = float(np.sum(m.x[ei]) - np.sum(x_ref0[ei]))
            if abs(drift) > max(cnt['steps'], 1) * 1e-13 * N:
                F.add(prefix + '.closed_drift', f'closed system: mesh sum of {e} drifted by {drift!r} over {cnt["steps"]} steps / {len(rec["ops"])} solve calls', element_index=ei)
    # --- recorded history
    if cfg.get('record', True) and m._recordedTime is not None and len(post.steps):
        rt = np.asarray(m._recordedTime, dtype=float)
        if len(rt) > 1 and not np.all(np.diff(rt) > 0):
            k = int(np.argmax(np.diff(rt) <= 0))
            F.add(prefix + '.recorded_time', f'recorded time stamps not strictly increasing at index {k}: {rt[k]!r}, {rt[k + 1]!r}', where='record')
        elif len(rt) == len(post.steps) + 1:
            for k in range(len(post.steps)):
                if not np.array_equal(np.asarray(m._recordedX[k + 1]), post.steps[k][3], equal_nan=True) or rt[k + 1] != post.steps[k][0]:
                    F.add(prefix + '.recorded_state', f'recorded profile {k + 1} is not the state observed after step {k}', where='record')
                    break
        elif not capped:
            F.add(prefix + '.recorded_state', f'{len(rt)} recorded profiles for {len(post.steps)} steps (+ initial)', where='record_len')
    for e in els:
        bc = cfg['bcs'].get(e)
        if bc:
            for side in ('L', 'R'):
                sig.add('bc:' + bc[side][0] + ('0' if bc[side][1] == 0 else ''))
    sig.add('T:' + cfg['T']['kind'])
    cnt['provider_calls'] = int(getattr(info['therm'], 'calls', 0))
    cnt['sim_time'] = float(m.t)
    return m, info, sig, D, capped


def execute(rec):
    F = core.Failures(cap=16)
    cnt = {k: 0 for k in ('steps', 'ledger_checks', 'clip_steps', 'temp_checks', 'provider_calls', 'sim_time', 'runs_real', 'runs_synth', 'predecessor_models')}
    cfg = rec['cfg']
    cnt['runs_synth' if cfg['provider'] == 'synth' else 'runs_real'] = 1
    if rec.get('pre'):
        try:
            pm, _ = DW.build(rec['pre'])
            pm.setup()
        except Exception:  # noqa  (the predecessor only has to exist)
            pass
        cnt['predecessor_models'] = 1
    m, info, sig, D, capped = run_and_check(rec, F, cnt)
    if rec.get('pre'):
        sig.add('pre')
    fl = [f for f in F.items if f['check'].startswith('C04.')]
    s = f"{cfg['model']}:{cfg['provider']}:{len(cfg['all_elements'])}:" + ','.join(sorted(sig))
    return core.result(fl, sig=s, nontrivial=cnt['ledger_checks'] >= 10, counters=cnt, digest=D.hex())


def shrink_candidates(rec):
    if rec.get('pre'):
        r = copy.deepcopy(rec); del r['pre']; yield r
    if len(rec['ops']) > 1:
        for c in core.ddmin_candidates(rec['ops']):
            if c:
                r = copy.deepcopy(rec); r['ops'] = c; yield r
    for i, op in enumerate(rec['ops']):
        if op.get('op') != 'solve':
            continue
        if op['k'] > 2:
            r = copy.deepcopy(rec); r['ops'][i]['k'] = max(1, op['k'] // 2); yield r
        if op['it'] != 'euler':
            r = copy.deepcopy(rec); r['ops'][i]['it'] = 'euler'; yield r
    cfg = rec['cfg']
    if cfg['N'] > 5:
        r = copy.deepcopy(rec); r['cfg']['N'] = max(5, cfg['N'] // 2); yield r
    if cfg['bcs']:
        r = copy.deepcopy(rec); r['cfg']['bcs'] = {}; yield r
        for e in list(cfg['bcs']):
            r = copy.deepcopy(rec); del r['cfg']['bcs'][e]; yield r
    if cfg['T']['kind'] != 'const':
        r = copy.deepcopy(rec); r['cfg']['T'] = {'kind': 'const', 'T': cfg['T']['temps'][0]}; yield r
    for e, p in cfg['profiles'].items():
        if p['kind'] != 'linear':
            r = copy.deepcopy(rec); r['cfg']['profiles'][e]['kind'] = 'linear'; yield r
    for key in ('cache', 'hash_s'):
        if key in cfg:
            r = copy.deepcopy(rec); del r['cfg'][key]; yield r
    if cfg.get('T_via') == 'ctor':
        r = copy.deepcopy(rec); r['cfg']['T_via'] = 'setter'; yield r
    if cfg.get('record', True) is False:
        r = copy.deepcopy(rec); r['cfg']['record'] = True; yield r
