"""C02 - reported precipitate statistics are moments of the size distribution; number budget.

World: real KWN model with PSD recording switched on; schedule = configuration swarm (grids chosen
to force extend / coarsen / refine events), 1-4 solve calls, both iterators.  Oracle: reference
moments of the distribution handed to the recorded mass balance, the recorded PSD row (that
distribution with sub-1 classes removed), per-step number budget from the stage nucleation rates
tapped at the PBM, measured re-mesh contribution.
"""
import numpy as np
from ksim import core, monitors as M
from ksim import precipworld as W

ID = 'C02'
LEVEL = 'exploration'
RULE = ('Each run = seeded configuration as in C01 with PSD recording on and small maxBins/cMax so that extend / coarsen / refine events occur within 250 steps; 1-4 solve calls. '
        'After a step whose only grid event is an extension the distribution carried into the next step must still have the reported moments. '
        'Non-trivial = at least 5 steps with a populated distribution; distinct = distinct record digest; signature = (backend, phases, events: populated, nucleating step, zero-rate step, dissolving step, extend, remesh).')
ASSUMPTIONS = ['Reported aggregates are compared with scalar-loop moments of the distribution passed to the recorded mass-balance evaluation (1e-11..1e-12 relative); the recorded PSD row must be that distribution with classes below 1 removed (bitwise).',
               'Number budget uses the largest nucleation rate handed to the population balance during the step\'s stages; slack 64 ulp x classes on N.',
               'A re-mesh that raises the number density (third-moment rescaling) would be reported under its own check id C02.remesh_number_increase.']
COMPONENTS = {'real': ['kawin.precipitation.* (full KWN model, PSD recording)', 'kawin.solver.*', 'kawin.thermo + pycalphad in real-backend runs'],
              'stub': ['analytic thermodynamics backend in stub runs']}


def plan(tier):
    if tier == 'quick':
        return dict(runs=540, batch=4, hard_timeout=600, soft_timeout=150)
    return dict(runs=20000, batch=8, hard_timeout=1800, soft_timeout=300)


def generate(rng, tier, index):
    rec = W.gen_run_record(rng, real_frac=0.1)
    rec['cfg']['record_psd'] = True
    return rec


def prepare(tier, recs):
    W.preload([r['cfg']['backend'] for r in recs])


class Count:
    def __init__(self, cnt):
        self.cnt = cnt

    def on_step(self, m):
        self.cnt['steps'] += 1


def execute(rec):
    F = core.Failures()
    D = core.Digest()
    cnt = {k: 0 for k in ('steps', 'moment_checks', 'recorded_rows', 'budget_checks', 'remesh_events', 'runs_real', 'runs_stub', 'sim_time', 'capped')}
    cfg = rec['cfg']
    m, backend = W.build_model(cfg, keep_log=False)
    cnt['runs_real' if cfg['backend'].startswith('real_') else 'runs_stub'] = 1
    mb = M.MassBalanceTap(m, backend)
    grid = M.GridTap(m)
    stage = M.PBMStageTap(m)
    mon = M.MomentsMonitor(m, cfg, mb, grid, stage, F, cnt)
    obs = W.Observer([Count(cnt), mon], rec.get('cap', 250))
    m.addCouplingModel(obs)
    info = W.run_ops(m, rec['ops'], obs, F=None)
    if info['exception'] is not None:
        raise core.Inconclusive(f'exception {info["exception"][0]} at {info["exception"][2]}')
    pd = m.pData
    cnt['sim_time'] = float(pd.time[pd.n])
    cnt['capped'] = int(info['capped'])
    D.add(*[float(t) for t in pd.time], np.asarray(pd.precipitateDensity, dtype=float), np.asarray(pd.Ravg, dtype=float))
    sig = f"{cfg['backend']}:{len(cfg['phases'])}:" + ','.join(sorted(mon.sig))
    return core.result(F, sig=sig, nontrivial=cnt['moment_checks'] >= 5, counters=cnt, digest=D.hex())


shrink_candidates = W.shrink_run_record
