"""C06 - integrators reach their nominal order, also for time-dependent problems; RK4 stage times;
iterators never modify the state they are given.

Decided inside the solver simulator: the clause at stake is about the clock the solver hands to
the model at each derivative callback.  Schedule dimension = the step sequence (uniform /
periodic non-uniform), the start time and the split of a run over the built-in iterators.
"""
import math, copy
import numpy as np
from ksim import core
from ksim import solverworld as sw
from kawin.GenericModel import GenericModel

ID = 'C06'
LEVEL = 'exploration'
RULE = ('Each run = one closed-form ODE (exp, cos, gauss, xcos, rot2d, logistic, polyt; autonomous and explicitly '
        'time-dependent), one iterator, one step schedule (uniform or periodic non-uniform pattern with ratios in [0.5,1]), '
        'a start time and a duration; integrated with 4-5 successively halved step sizes through the real DESolver. '
        'Non-trivial = at least two halvings with error above 1e-11 relative; distinct = distinct record digest; '
        'behaviour signature = (ode, iterator, schedule kind, t0 zero/non-zero).')
ASSUMPTIONS = ['Observed order is the overall error slope over 3+ successive halvings with relative error above 1e-11 (Euler) / 1e-12 (RK4); required: the finest usable error lies below some coarser error times (h ratio)^p with p=0.7 (Euler) / 3.25 (RK4); one-sided, robust to sign changes of the leading error constant.',
               'Stage times are compared with 4 ulp tolerance.']
COMPONENTS = {'real': ['kawin.solver.Iterators.ExplicitEulerIterator', 'kawin.solver.Iterators.RK4Iterator', 'kawin.solver.Solver.DESolver',
                       'kawin.GenericModel.GenericModel.solve'], 'stub': ['closed-form ODE probe model']}

ODES = ['exp', 'cos', 'gauss', 'xcos', 'rot', 'logistic', 'polyt']
AUTONOMOUS = {'exp', 'logistic'}


def plan(tier):
    if tier == 'quick':
        return dict(runs=960, batch=10, hard_timeout=300, soft_timeout=60)
    return dict(runs=16000, batch=40, hard_timeout=900, soft_timeout=60)


def generate(rng, tier, index):
    ode = ODES[index % len(ODES)] if index < 4 * len(ODES) else rng.choice(ODES)
    it = 'rk4' if (index // len(ODES)) % 2 == 0 else 'euler'
    sched = rng.choice(['uniform', 'uniform', 'pattern'])
    pattern = [round(rng.uniform(0.5, 1.0), 3) for _ in range(rng.randint(2, 5))] if sched == 'pattern' else [1.0]
    t0 = rng.choice([0.0, 0.0, round(rng.uniform(0.1, 3.0), 3)])
    T = round(rng.uniform(0.8, 2.5), 3)
    p = {'a': round(rng.uniform(0.5, 2.0), 3), 'b': round(rng.uniform(0.3, 1.5), 3)}
    if rng.random() < 0.5:
        p['a'] = -p['a']
    return {'ode': ode, 'it': it, 'sched': sched, 'pattern': pattern, 't0': t0, 'T': T, 'p': p, 'scale': rng.choice([1.0, 1.0, 1.0, 20.0, 300.0]), 'reuse': rng.random() < 0.3,
            'N': [8, 16, 32, 64, 128] if it == 'rk4' else [80, 160, 320, 640, 1280]}


class OdeModel(GenericModel):
    def __init__(self, rec, h):
        super().__init__()
        self.ode = rec['ode']
        self.a = rec['p']['a']
        self.b = rec['p']['b']
        # time scale S: the problem is x'(t) = f(t/S, x)/S on [S t0, S (t0+T)] -- same solution in tau = t/S, steps, clocks and
        # the end time are S times larger (steps above one time unit exist for S >= 20)
        self.S = float(rec.get('scale', 1.0))
        self.t0 = rec['t0']            # in tau
        self.h = h
        self.pattern = rec['pattern']
        self.k = 0
        self.t = self.t0 * self.S
        self.x = self.exact(self.t)
        self.deriv_times = []
        self.accepted = []

    def exact(self, t):
        t = t / self.S
        a, b, t0 = self.a, self.b, self.t0
        o = self.ode
        if o == 'exp':
            return np.array([math.exp(a * (t - t0))])
        if o == 'cos':
            return np.array([1.0 + (math.sin(b * 3 * t) - math.sin(b * 3 * t0)) / (b * 3)])
        if o == 'gauss':
            return np.array([math.exp(-b * (t * t - t0 * t0))])
        if o == 'xcos':
            return np.array([math.exp(a * (math.sin(2 * t) - math.sin(2 * t0)) / 2)])
        if o == 'rot':
            th = a * (t - t0) + b * (t * t - t0 * t0)
            return np.array([math.cos(th), math.sin(th)])
        if o == 'logistic':
            r = abs(a) * 2
            x0 = 0.2
            e = math.exp(r * (t - t0))
            return np.array([x0 * e / (1 - x0 + x0 * e)])
        if o == 'polyt':
            # x' = 5 b t^4 + a  -> x = b t^5 + a t + c   (RK4 is not exact for t^4 in x')
            return np.array([1.0 + b * (t ** 5 - t0 ** 5) + a * (t - t0)])
        raise ValueError(o)

    def rhs(self, t, x):
        return self.rhs_tau(t / self.S, x) / self.S

    def rhs_tau(self, t, x):
        a, b = self.a, self.b
        o = self.ode
        if o == 'exp':
            return np.array([a * x[0]])
        if o == 'cos':
            return np.array([math.cos(b * 3 * t)])
        if o == 'gauss':
            return np.array([-2 * b * t * x[0]])
        if o == 'xcos':
            return np.array([a * x[0] * math.cos(2 * t)])
        if o == 'rot':
            w = a + 2 * b * t
            return np.array([-w * x[1], w * x[0]])
        if o == 'logistic':
            r = abs(a) * 2
            return np.array([r * x[0] * (1 - x[0])])
        if o == 'polyt':
            return np.array([5 * b * t ** 4 + a])

    def getCurrentX(self):
        return self.t, [self.x]

    def getdXdt(self, t, x):
        self.deriv_times.append(float(t))
        return [self.rhs(t, x[0])]

    def getDt(self, dXdt):
        dt = self.S * self.h * self.pattern[self.k % len(self.pattern)]
        self.k += 1
        return dt

    def postProcess(self, time, x):
        self.t = float(time)
        self.x = np.array(x[0], dtype=float)
        self.accepted.append(self.t)
        return x, False


def execute(rec):
    F = core.Failures()
    D = core.Digest()
    it = rec['it']
    T = rec['T']
    errs = []
    cnt = {'steps': 0, 'sim_time': 0.0, 'stage_checks': 0}
    mean_pat = sum(rec['pattern']) / len(rec['pattern'])
    for N in rec['N']:
        h = T / N / mean_pat
        m = OdeModel(rec, h)
        if rec.get('reuse'):
            # the same model object was solved before with the OTHER integrator (then put back to its initial state): the integrator
            # requested for this solve call is the one that must run
            try:
                m.solve(T * m.S * 0.25, solverType=sw.ITER['euler' if it == 'rk4' else 'rk4'], minDtFrac=1e-9, maxDtFrac=1)
            except Exception:  # noqa
                pass
            m.k = 0
            m.t = m.t0 * m.S
            m.x = m.exact(m.t)
            m.deriv_times, m.accepted = [], []
        w = sw.RecordingIterator(sw.ITER_FN[it])
        try:
            m.solve(T * m.S, solverType=w, minDtFrac=1e-9, maxDtFrac=1)
        except Exception as e:  # noqa
            F.add('C06.exception', f'solve raised {type(e).__name__}: {e}')
            break
        cnt['steps'] += len(m.accepted)
        cnt['sim_time'] += T * m.S
        ex = m.exact(m.t)
        err = float(np.max(np.abs(m.x - ex)) / max(np.max(np.abs(ex)), 1e-300))
        errs.append(err)
        D.add(N, m.t, *m.x)
        # --- stage-time history (the clock handed to the model)
        want = [0.0, 0.5, 0.5, 1.0] if it == 'rk4' else [0.0]
        pos = 0
        for (t, dt, stages) in w.steps:
            got = m.deriv_times[pos:pos + len(stages)]
            pos += len(stages)
            cnt['stage_checks'] += 1
            if len(stages) != len(want):
                F.add('C06.stage_count', f'{it}: {len(stages)} derivative evaluations in one step, documented {len(want)}', it=it)
                break
            bad = None
            for s, (g, f) in enumerate(zip(got, want)):
                if abs(g - (t + f * dt)) > 4 * sw.ulp(t + dt):
                    bad = (s, g, t + f * dt)
                    break
            if bad:
                F.add('C06.stage_times', f'{it} step at t={t!r}, dt={dt!r}: stage {bad[0] + 1} derivative evaluated at time {bad[1]!r}, documented {bad[2]!r}', it=it, stage=bad[0] + 1)
                break
        if w.mutated:
            F.add('C06.state_mutated', f'{it}: iterator modified the state vector it was given in {w.mutated} steps', it=it)
        if abs(m.t - (rec['t0'] * m.S + T * m.S)) > 0:
            F.add('C06.end_time', f'run ended at {m.t!r}, expected {rec["t0"] * m.S + T * m.S!r}')
    # --- observed order: overall slope over the usable halvings, one-sided ("reaches its nominal order";
    # an apparent order above nominal happens when the leading error term changes sign and is no violation)
    # (relative errors; the rounding floor of N <= 128 steps is ~1e-14, so 1e-12 keeps a factor 50+ above it and lets the fine grids,
    # where a fourth-order method has left its pre-asymptotic regime, take part)
    usable = [i for i, e in enumerate(errs) if e > (1e-12 if it == 'rk4' else 1e-11)]
    nontrivial = len(usable) >= 3 and usable == list(range(usable[0], usable[0] + len(usable)))
    nominal, pmin = (4.0, 3.25) if it == 'rk4' else (1.0, 0.7)
    if nontrivial:
        # robust decay test: the finest usable error must lie below SOME coarser error scaled with h^pmin.
        # (pairwise slopes are unreliable where the leading error constant is close to a sign change.)
        j = usable[-1]
        bound = max(errs[i] * (rec['N'][i] / rec['N'][j]) ** pmin for i in usable[:-1])
        overall = math.log(errs[usable[0]] / errs[j]) / math.log(rec['N'][j] / rec['N'][usable[0]])
        cnt['order_measurements'] = 1
        if errs[j] > bound:
            F.add('C06.order', f'{it} on ode={rec["ode"]} ({"autonomous" if rec["ode"] in AUTONOMOUS else "time-dependent"}, {rec["sched"]} steps): error decays slower than h^{pmin} '
                  f'(overall slope {overall:.2f}) over N={rec["N"][usable[0]]}..{rec["N"][j]} (errors {["%.2e" % e for e in errs]}), nominal order {nominal}', it=it,
                  autonomous=rec['ode'] in AUTONOMOUS)
    sig = f"{rec['ode']}:{it}:{rec['sched']}:{'t0' if rec['t0'] else 'zero'}"
    return core.result(F, sig=sig, nontrivial=nontrivial, counters=cnt, digest=D.hex())


def shrink_candidates(rec):
    if rec['sched'] != 'uniform':
        r = copy.deepcopy(rec); r['sched'] = 'uniform'; r['pattern'] = [1.0]; yield r
    if rec['t0'] != 0.0:
        r = copy.deepcopy(rec); r['t0'] = 0.0; yield r
    for key, val in (('T', 1.0),):
        if rec[key] != val:
            r = copy.deepcopy(rec); r[key] = val; yield r
    for k, v in (('a', 1.0), ('b', 1.0)):
        if rec['p'][k] != v:
            r = copy.deepcopy(rec); r['p'][k] = v; yield r
    if len(rec['N']) > 3:
        # only the coarsest grid may be dropped: dropping fine grids would leave a pre-asymptotic window, where a slope below nominal proves nothing
        r = copy.deepcopy(rec); r['N'] = rec['N'][1:]; yield r
    pref = ['cos', 'exp', 'polyt', 'gauss', 'xcos', 'logistic', 'rot']
    for o in pref[:pref.index(rec['ode'])]:
        r = copy.deepcopy(rec); r['ode'] = o; yield r
