"""C01 - precipitation conserves solute between matrix and precipitates.

World: real KWN model (stub or real backend, no faults); schedule = configuration swarm, split of
the run into 1-4 solve calls, iterator per call.  Oracle: reference mass balance per recorded
step from tapped inputs, recorded-row identity, freshness of the precipitate-composition table
(latest backend answer for the *current* class boundaries), identity on the live distribution.
"""
import copy
import numpy as np
from ksim import core, monitors as M
from ksim import precipworld as W

ID = 'C01'
LEVEL = 'exploration'
RULE = ('Each run = seeded configuration (stub binary / stub ternary with 1-3 precipitate phases, real Al-Zr / Ni-Cr-Al / Al-Mg-Si; all five nucleation site types, '
        'four shapes, three ways of specifying molar volume with ratios 0.5-2, infinite / no precipitate diffusion, fixed and adaptive grids, constraint switches) and 1-4 solve calls '
        'with seeded durations, iterators and step fractions; monitor state persists across calls. Configurations also vary: composition floors inside the visited range (0.1-0.9 x0), minimum radius / dissolution / nucleation-rate constraints, effective-diffusion switch, incubation theta, zero grain-boundary energy, aspect ratio 1 and radius-dependent aspect ratios, and in 10%/12% of the stub runs a predecessor / sibling model built in the same process. Non-trivial = at least 5 recorded steps with precipitates present; '
        'distinct = distinct record digest; signature = (backend, phases, events: precipitates, extend, remesh, clamp).')
ASSUMPTIONS = ['Reference volume factor from the Clemm-Fisher formulas written independently (ksim.refs); molar volumes from the run record, not from the model objects.',
               'Steps with the documented clamp of a negative matrix composition and steps with total fraction >= 1 are exempt from the identity (counted).',
               'No faults are injected here (C03 carries the faults); admissible configurations as in C03.',
               'Tolerance 1e-10 relative on the reference balance, 1e-12 on the identity of the recorded row.']
COMPONENTS = {'real': ['kawin.precipitation.* (full KWN model)', 'kawin.solver.*', 'kawin.thermo + pycalphad in real-backend runs'],
              'stub': ['analytic thermodynamics backend in stub runs (evidence counts both kinds)']}


def plan(tier):
    if tier == 'quick':
        return dict(runs=600, batch=4, hard_timeout=600, soft_timeout=150)
    return dict(runs=20000, batch=8, hard_timeout=1800, soft_timeout=300)


def generate(rng, tier, index):
    return W.gen_run_record(rng, real_frac=0.12)


def prepare(tier, recs):
    W.preload([r['cfg']['backend'] for r in recs])


def execute(rec):
    F = core.Failures()
    D = core.Digest()
    cnt = {k: 0 for k in ('steps', 'balance_checks', 'freshness_checks', 'live_identity_checks', 'clamp_active', 'steps_with_precipitates',
                          'runs_real', 'runs_stub', 'sim_time', 'capped')}
    cfg = rec['cfg']
    m, backend = W.build_model(cfg, keep_log=False)
    cnt['runs_real' if cfg['backend'].startswith('real_') else 'runs_stub'] = 1
    mb = M.MassBalanceTap(m, backend)
    grid = M.GridTap(m)
    mon = ConservationWithCount(m, cfg, backend, mb, grid, F, cnt)
    obs = W.Observer([mon], rec.get('cap', 250))
    m.addCouplingModel(obs)
    info = W.run_ops(m, rec['ops'], obs, F=None)
    if info['exception'] is not None:
        # crashes are C03's subject; here the run is inconclusive
        raise core.Inconclusive(f'exception {info["exception"][0]} at {info["exception"][2]}')
    pd = m.pData
    cnt['sim_time'] = float(pd.time[pd.n])
    cnt['capped'] = int(info['capped'])
    D.add(*[float(t) for t in pd.time], np.asarray(pd.composition, dtype=float), np.asarray(pd.fconc, dtype=float))
    sig = f"{cfg['backend']}:{len(cfg['phases'])}:" + ','.join(sorted(mon.sig))
    return core.result(F, sig=sig, nontrivial=cnt['steps_with_precipitates'] >= 5, counters=cnt, digest=D.hex())


class ConservationWithCount(M.ConservationMonitor):
    def on_step(self, m):
        self.cnt['steps'] += 1
        super().on_step(m)


shrink_candidates = W.shrink_run_record
