"""C12 - driving force, phase boundary and critical radius agree with each other.

In-run clause (simulation proper): at every accepted step of every precipitation world the sign of
the growth field must change at the recorded critical radius (growth, class boundaries and Rcrit
read at the same instant, after the distribution update).
Static clauses: evaluated on the real Al-Zr binary backend at the states a trajectory visits
(matrix composition and temperature of sampled steps, Gibbs-Thomson energies of that step's class
boundaries).  This is input sampling along trajectories, not a sweep of the input space.
"""
import math, copy
import numpy as np
from ksim import core, monitors as M
from ksim import precipworld as W

ID = 'C12'
LEVEL = 'exploration'
RULE = ('Runs are (a) precipitation worlds (stub binary/ternary 1-3 phases, real Al-Zr, Ni-Cr-Al) with the growth-sign monitor at every accepted step, '
        '(b) "static" runs: a short real Al-Zr trajectory, then at 3 sampled visited states the relations dG(x_alpha(g)) = g (three methods), monotonicity of x_alpha in g, '
        'sentinel monotonicity, sign change and monotonicity of dG around the planar solvus, agreement of the four driving-force methods. '
        '(c) the same static relations evaluated directly on Al-Cr / AL13CR2 (site ratios 13:2, formula unit != mole of atoms) at generated states. '
        'Half of the stub runs with boundary sites reset the same model, change an interfacial / grain-boundary energy and solve again. Non-trivial = at least 5 sign checks with boundaries on both sides of R*, or at least 20 static relations evaluated; distinct = distinct record digest; '
        'signature = (kind, backend, phases, sides seen).')
ASSUMPTIONS = ['Sign test skipped where the critical radius is clamped to the minimum radius, below the binary stability cut and inside a band delta around R* '
               '(stub: 1e-6; real: 2% + 4 J/mol relative to the driving force, covering the documented 1 J/mol offset).',
               'Static value clause: |dG(x_alpha(g)) - g| <= 2 J/mol + 1e-3 relative for tangent, sampling, approximate; curvature method only in the limit ln(x/x_eq) <= 0.2 '
               '(known finding beyond it).', 'Static clauses use removeCache=True to stay independent of C09 effects.']
COMPONENTS = {'real': ['kawin.precipitation.* (full KWN model)', 'kawin.thermo.BinaryThermodynamics / MulticomponentThermodynamics + pycalphad in real runs'],
              'stub': ['analytic backend in stub runs (Gibbs-Thomson relations hold there by construction, so failures point at KWNEuler/NucleationRate/PrecipitationParameters)']}


def plan(tier):
    if tier == 'quick':
        return dict(runs=330, batch=3, hard_timeout=600, soft_timeout=200)
    return dict(runs=16000, batch=8, hard_timeout=1800, soft_timeout=300)


def generate(rng, tier, index):
    if index % 11 == 9 and index % 33 == 9:
        # static clauses on a precipitate whose sublattice site ratios do not sum to one (AL13CR2 in Al-Cr, 13:2): free energies per formula
        # unit and per mole of atoms differ there, which AL3ZR (0.75:0.25) cannot show
        states = []
        for _ in range(rng.randint(1, 2)):
            T = rng.choice([650.0, 700.0, 750.0, round(rng.uniform(620, 780), 1)])
            g = sorted(set([0.0] + [round(10 ** rng.uniform(1.7, 3.6), 2) for _ in range(rng.randint(3, 6))]))
            states.append([round(10 ** rng.uniform(-3.3, -2.3), 6), T, g])
        return {'kind': 'static_direct', 'system': 'alcr', 'states': states, 'cfg': {'backend': 'none', 'phases': ['AL13CR2']}}
    if index % 11 == 10:
        cfg = W.real_config('real_alzr', rng)
        return {'kind': 'static', 'cfg': cfg, 'ops': [{'op': 'solve', 'T': 10.0, 'it': 'euler', 'minf': 2e-2, 'maxf': 1.0}, {'op': 'solve', 'T': 100.0, 'it': 'euler', 'minf': 2e-2, 'maxf': 1.0},
                                                       {'op': 'solve', 'T': 1000.0 * rng.choice([1, 3]), 'it': rng.choice(['euler', 'rk4']), 'minf': 2e-2, 'maxf': 1.0}],
                'cap': 150, 'sample': sorted(rng.sample(range(20, 140), 3))}
    rec = W.gen_run_record(rng, real_frac=0.12, real_kinds=('real_alzr', 'real_nicral'))
    rec['kind'] = 'run'
    cfg = rec['cfg']
    gbs = [p for p in cfg['phases'] if cfg['phase_params'][p].get('site') in W.SITE_KMAX] if cfg['backend'].startswith('stub') else []
    if gbs and rng.random() < 0.5:
        # the same model object is reset, given another interfacial / grain-boundary energy and solved again (cached boundary-site factors
        # must follow, otherwise the critical radius is no longer where growth changes sign)
        op = {'op': 'reconfigure'}
        if rng.random() < 0.6:
            ph = rng.choice(gbs)
            kmax = W.SITE_KMAX[cfg['phase_params'][ph]['site']]
            op['gamma'] = {ph: round(max(cfg['phase_params'][ph]['gamma'] * rng.choice([0.7, 1.5]), cfg['gbEnergy'] / (2 * 0.9 * kmax)), 4)}
        else:
            kmin = min(W.SITE_KMAX[cfg['phase_params'][p]['site']] for p in gbs)
            gmin = min(cfg['phase_params'][p]['gamma'] for p in gbs)
            op['gbEnergy'] = round(min(cfg['gbEnergy'] * rng.choice([0.5, 1.6]), 2 * gmin * 0.9 * kmin), 4)
        rec['ops'] = rec['ops'][:1] + [op] + (rec['ops'][1:] or [dict(rec['ops'][0])])
    return rec


_DIRECT = {}


def prepare(tier, recs):
    W.preload([r['cfg']['backend'] for r in recs if r['cfg']['backend'] != 'none'])
    if any(r['kind'] == 'static_direct' for r in recs) and 'alcr' not in _DIRECT:
        from kawin.thermo import BinaryThermodynamics
        from kawin.tests import datasets as ds
        t = BinaryThermodynamics(ds.NICRAL_TDB, ['AL', 'CR'], ['FCC_A1', 'AL13CR2'], drivingForceMethod='tangent')
        t.setDFSamplingDensity(2000)
        _DIRECT['alcr'] = (t, 2.0 / 15.0)


class Sampler:
    def __init__(self, steps):
        self.steps = set(steps)
        self.k = 0
        self.states = []

    def on_step(self, m):
        self.k += 1
        if self.k in self.steps:
            n = m.pData.n
            self.states.append((float(m.pData.composition[n, 0]), float(m.pData.temperature[n]), np.array(m.particleGibbs(), dtype=float, copy=True)))


def static_clauses(therm, states, F, cnt, xbeta=0.25):
    off = float(getattr(therm, 'gOffset', 1.0))
    for (x, T, g_all) in states:
        g = np.unique(np.concatenate(([0.0], g_all[np.isfinite(g_all)])))
        g = g[::max(1, len(g) // 14)]
        gq = g.copy()
        xa, xb = therm.getInterfacialComposition(T, gq)
        xa = np.atleast_1d(np.asarray(xa, dtype=float)); xb = np.atleast_1d(np.asarray(xb, dtype=float))
        stable = xa != -1
        cnt['static_states'] += 1
        # (iii) once unstable, unstable for every larger g
        if np.any(stable) and np.any(~stable):
            first_bad = int(np.argmax(~stable))
            if np.any(stable[first_bad:]):
                j = first_bad + int(np.argmax(stable[first_bad:]))
                F.add('C12.sentinel_monotone', f'T={T}: precipitate reported unstable at g={g[first_bad]!r} J/mol but stable again at the larger g={g[j]!r}', clause='sentinel')
        # (ii) monotone in g
        xs = xa[stable]
        gs = g[stable]
        if len(xs) > 1 and np.any(np.diff(xs) < -1e-12 * np.abs(xs[1:])):
            j = int(np.argmax(np.diff(xs) < -1e-12 * np.abs(xs[1:])))
            F.add('C12.xalpha_monotone', f'T={T}: interfacial matrix composition falls from {xs[j]!r} to {xs[j + 1]!r} when g rises from {gs[j]!r} to {gs[j + 1]!r}', clause='monotone')
        cnt['static_relations'] += len(xs)
        # (i) dG(x_alpha(g)) = g within the offset, for the three consistent methods
        for method in ('tangent', 'sampling', 'approximate'):
            therm.setDrivingForceMethod(method)
            for xi, gi in zip(xs, gs):
                if xi <= 0 or xi >= 0.96 * xbeta:
                    continue
                dg, _ = therm.getDrivingForce(xi, T, removeCache=True)
                dg = float(np.squeeze(dg))
                cnt['static_relations'] += 1
                if abs(dg - gi) > 2 * off + 1e-3 * abs(gi) + 0.05:
                    F.add('C12.dg_at_interface', f'T={T} method={method}: driving force at x_alpha(g={gi!r})={xi!r} is {dg!r} J/mol, expected g within the {off} J/mol offset', clause='inverse', method=method)
        # (iv) sign change at the planar solvus and monotone in x; (v) method agreement
        if stable[0]:
            xeq = float(xa[0])
            grid = [0.5, 0.9, 0.97, 1.03, 1.1, 1.5, 3.0] + ([x / xeq] if x > 0 else [])
            grid = sorted(set(round(v, 6) for v in grid if 0 < v * xeq < 0.8 * xbeta))
            vals = {}
            for method in ('tangent', 'sampling', 'approximate', 'curvature'):
                therm.setDrivingForceMethod(method)
                vals[method] = [float(np.squeeze(therm.getDrivingForce(v * xeq, T, removeCache=True)[0])) for v in grid]
                cnt['static_relations'] += len(grid)
            for method in ('tangent', 'sampling', 'approximate', 'curvature'):
                d = vals[method]
                for v, dv in zip(grid, d):
                    if abs(math.log(v)) >= 0.025 and abs(dv) > 2 * off:
                        if (dv > 0) != (v > 1):
                            F.add('C12.dg_sign', f'T={T} method={method}: driving force {dv!r} J/mol at x = {v} x_eq (x_eq={xeq!r}) has the wrong sign', clause='sign', method=method)
                if np.any(np.diff(d) < -1e-6 * np.maximum(np.abs(d[1:]), 1.0)):
                    F.add('C12.dg_monotone', f'T={T} method={method}: driving force not increasing with supersaturation: {list(zip(grid, d))}', clause='monotone_dg', method=method)
            ref = vals['tangent']
            for method in ('sampling', 'approximate'):
                for v, a, b in zip(grid, vals[method], ref):
                    if abs(a - b) > 2 * off + 1e-3 * abs(b) + 0.05:
                        F.add('C12.method_value', f'T={T}: methods {method} and tangent differ at x = {v} x_eq: {a!r} vs {b!r} J/mol', clause='methods', method=method, large_supersaturation=False)
            for v, a, b in zip(grid, vals['curvature'], ref):
                lv = abs(math.log(v))
                if lv <= 0.2:
                    if abs(a - b) > 1.0 * lv * abs(b) + 2 * off + 0.05:
                        F.add('C12.method_value', f'T={T}: curvature method {a!r} vs tangent {b!r} J/mol at x = {v} x_eq (small supersaturation limit)', clause='methods', method='curvature', large_supersaturation=False)
                elif abs(a - b) > 2 * off + 1e-3 * abs(b) + 0.05:
                    F.add('C12.method_value', f'T={T}: curvature method {a!r} vs tangent {b!r} J/mol at x = {v} x_eq', clause='methods', method='curvature', large_supersaturation=True)
    therm.setDrivingForceMethod('tangent')


def execute(rec):
    F = core.Failures(cap=24)
    D = core.Digest()
    cnt = {k: 0 for k in ('steps', 'sign_checks', 'rcrit_clamped', 'static_states', 'static_relations', 'runs_real', 'runs_stub', 'sim_time', 'capped')}
    cfg = rec['cfg']
    if rec['kind'] == 'static_direct':
        therm, xbeta = _DIRECT[rec['system']]
        therm.clearCache()
        static_clauses(therm, [(x, T, np.array(g, dtype=float)) for x, T, g in rec['states']], F, cnt, xbeta=xbeta)
        cnt['runs_real'] = 1
        return core.result(F, sig='static_direct:' + rec['system'], nontrivial=cnt['static_relations'] >= 20, counters=cnt, digest='')
    m, backend = W.build_model(cfg, keep_log=False)
    cnt['runs_real' if cfg['backend'].startswith('real_') else 'runs_stub'] = 1
    mon = M.GrowthSignMonitor(m, cfg, F, cnt)

    class Count:
        def on_step(self, mm):
            cnt['steps'] += 1
    mons = [Count(), mon]
    sampler = None
    if rec['kind'] == 'static':
        sampler = Sampler(rec['sample'])
        mons.append(sampler)
    obs = W.Observer(mons, rec.get('cap', 250))
    m.addCouplingModel(obs)
    info = W.run_ops(m, rec['ops'], obs, F=None)
    if info['exception'] is not None:
        raise core.Inconclusive(f'exception {info["exception"][0]} at {info["exception"][2]}')
    pd = m.pData
    cnt['sim_time'] = float(pd.time[pd.n])
    cnt['capped'] = int(info['capped'])
    D.add(*[float(t) for t in pd.time], np.asarray(pd.Rcrit, dtype=float))
    if sampler is not None and sampler.states:
        static_clauses(backend._inner, sampler.states, F, cnt)
    both = 'above' in mon.sig and 'below' in mon.sig
    nontrivial = (cnt['sign_checks'] >= 5 and both) or cnt['static_relations'] >= 20
    sig = f"{rec['kind']}:{cfg['backend']}:{len(cfg['phases'])}:" + ','.join(sorted(mon.sig))
    return core.result(F, sig=sig, nontrivial=nontrivial, counters=cnt, digest=D.hex())


def shrink_candidates(rec):
    if rec['kind'] == 'static_direct':
        for c in core.ddmin_candidates(rec['states']):
            if c:
                r = copy.deepcopy(rec); r['states'] = c; yield r
        for i, st in enumerate(rec['states']):
            if len(st[2]) > 2:
                r = copy.deepcopy(rec); r['states'][i][2] = st[2][:max(2, len(st[2]) // 2)]; yield r
        return
    for r in W.shrink_run_record(rec):
        yield r
    if rec.get('sample') and len(rec['sample']) > 1:
        for c in core.ddmin_candidates(rec['sample']):
            if c:
                r = copy.deepcopy(rec); r['sample'] = c; yield r
