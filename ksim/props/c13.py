"""C13 - temperature schedules are followed faithfully.

Worlds: non-isothermal precipitation (stub binary / ternary, real Al-Zr) and diffusion models (see
diffusion part below) under seeded schedules: constant; 2-5 break points in hours (ramps of both
signs, holds, evaluation beyond the last break point); the same schedule as a Python function; each
supplied through the constructor parameter object and through the setter.
Oracles: recorded T vs an independent evaluation of the schedule; paired runs (ctor vs setter,
break points vs function) must be bitwise identical incl. the isothermal flag; binary lookup
table staleness bound (tap on _createLookupBinary) + black-box solvus bracket.
"""
import math, copy
import numpy as np
from ksim import core
from ksim import precipworld as W

ID = 'C13'
LEVEL = 'exploration'
RULE = ('Each run = one seeded precipitation record with a temperature schedule (const / break points / function; ramps 1e2..1e5 K/s relative to the stub time scale, '
        'both signs, holds, beyond-last-point) executed as a pair (constructor vs setter, or break points vs function form) and compared bitwise; binary runs carry the lookup-table staleness tap; '
        'reschedule histories: the schedule of a live model is replaced by another kind of specification between solve calls (recorded temperature, isothermal flag, incubation formula actually evaluated, table staleness follow the schedule in force); '
        'diffusion runs compare the temperature handed to the flux computation with the schedule. Non-trivial = temperature changed by more than maxTempChange over the run and at least 10 steps; '
        'distinct = distinct record digest; signature = (backend, schedule kind, heating/cooling/hold seen, table rebuilds seen, pair kind).')
ASSUMPTIONS = ['Recorded temperature compared with a scalar re-implementation of the documented hour-based linear interpolation (4 ulp); constants bitwise.',
               'A constant given as a one-segment schedule is not required to match the isothermal run (different incubation formula is documented).',
               'Staleness bound asserted after every accepted step: |T_table - T_n| <= maxTempChange (1+1e-9).']
COMPONENTS = {'real': ['kawin.precipitation.* (TemperatureParameters, KWNEuler._growthRateBinary/_createLookupBinary, KWNBase)', 'kawin.diffusion.DiffusionParameters.TemperatureParameters in diffusion runs',
                       'kawin.thermo.BinaryThermodynamics in real runs'], 'stub': ['analytic backend in stub runs']}


def plan(tier):
    if tier == 'quick':
        return dict(runs=260, batch=3, hard_timeout=600, soft_timeout=200)
    return dict(runs=7000, batch=8, hard_timeout=1800, soft_timeout=300)


def gen_schedule(rng, total_s, T0):
    """Break points in hours for a run of about total_s seconds."""
    npts = rng.randint(2, 5)
    frac = sorted(rng.uniform(0.05, 1.3) for _ in range(npts - 1))
    times = [0.0] + [f * total_s / 3600 for f in frac]
    temps = [T0]
    for _ in range(npts - 1):
        r = rng.random()
        if r < 0.25:
            temps.append(temps[-1])                       # hold
        else:
            temps.append(temps[-1] + rng.choice([-1, 1]) * rng.choice([0.3, 2, 5, 12, 30]))
    return {'kind': 'array', 'times': times, 'temps': temps}


def generate(rng, tier, index):
    if index % 6 == 5:
        from ksim import diffworld as DW
        cfg = DW.gen_config(rng, real_ok=False)
        T0 = cfg['T']['T'] if cfg['T']['kind'] == 'const' else cfg['T']['temps'][0]
        kind = rng.choice(['array', 'func', 'array', 'const'])
        if kind == 'const':
            cfg['T'] = {'kind': 'const', 'T': T0}
        else:
            npts = rng.randint(2, 4)
            times = [0.0] + sorted(round(rng.uniform(0.1, 1.2), 3) for _ in range(npts - 1))
            temps = [T0] + [T0 + rng.choice([-60, -20, 15, 40, 90]) for _ in range(npts - 1)]
            cfg['T'] = {'kind': kind, 'times': times, 'temps': temps, 'time_scale': True}
            if kind == 'func':
                cfg['T']['grad'] = rng.choice([0.0, 25.0, -40.0]) / cfg['L']
        cfg['cache'] = False
        return {'kind': 'diffusion', 'cfg': cfg, 'ops': DW.gen_ops(rng), 'cap': 300}
    if index % 6 == 4:
        # history: the schedule is replaced (by another kind of specification) between solve calls of one model
        cfg = W.gen_stub_config(rng, nel=rng.choice([1, 1, 2]), allow_shapes=False)
        solves = W.gen_solve_ops(rng)
        while len(solves) < 2:
            solves = W.gen_solve_ops(rng)
        total = sum(o['T'] for o in solves)
        T0 = cfg['T']['T']
        kinds = ['const', 'array', 'func']
        k0 = rng.choice(kinds)
        cfg['T'] = {'kind': 'const', 'T': T0} if k0 == 'const' else dict(gen_schedule(rng, total, T0), kind=k0)
        cfg['T_via'] = rng.choice(['setter', 'ctor'])
        cons = cfg.setdefault('constraints', {})
        cons['maxTempChange'] = rng.choice([0.5, 1, 5])
        ops = [solves[0]]
        prev = k0
        for o in solves[1:]:
            if rng.random() < 0.8:
                k1 = rng.choice([k for k in kinds if k != prev] + kinds)
                Tn = T0 + rng.choice([0, 0, -5, 10])
                ops.append({'op': 'set_temperature', 'spec': {'kind': 'const', 'T': Tn} if k1 == 'const' else dict(gen_schedule(rng, total, Tn), kind=k1)})
                prev = k1
            ops.append(o)
        return {'kind': 'reschedule', 'cfg': cfg, 'ops': ops, 'cap': 220, 'pair': 'none'}
    real = rng.random() < 0.04
    if real:
        cfg = W.real_config('real_alzr', rng)
        ops = [{'op': 'solve', 'T': 10.0, 'it': 'euler', 'minf': 2e-2, 'maxf': 1.0}, {'op': 'solve', 'T': 100.0, 'it': rng.choice(['euler', 'rk4']), 'minf': 2e-2, 'maxf': 1.0}]
        total = 110.0
        cap = 70
    else:
        cfg = W.gen_stub_config(rng, nel=rng.choice([1, 1, 1, 2]), allow_shapes=False)
        ops = W.gen_solve_ops(rng)
        total = sum(o['T'] for o in ops)
        cap = 220
    T0 = cfg['T']['T']
    r = rng.random()
    if r < 0.12:
        sched = {'kind': 'const', 'T': T0}
    else:
        sched = gen_schedule(rng, total, T0)
        if rng.random() < 0.35:
            sched['kind'] = 'func'
    cfg['T'] = sched
    cons = cfg.setdefault('constraints', {})
    cons['maxTempChange'] = rng.choice([0.1, 0.5, 1, 1, 5])
    if rng.random() < 0.5:
        cons['maxNonIsothermalDT'] = rng.choice([0.1, 1, 5])
    if rng.random() < 0.15:
        cons['checkTemperature'] = False
    pair = rng.choice(['ctor_setter', 'ctor_setter', 'array_func']) if sched['kind'] != 'const' else 'ctor_setter'
    if not real and rng.random() < 0.2:
        # another model is configured (with another temperature specification) after this one and before this one is solved
        sib = W.gen_stub_config(rng, nel=len(cfg['elements']), allow_shapes=False)
        sib['T'] = rng.choice([{'kind': 'const', 'T': T0 + rng.choice([-40, 25])}, {'kind': 'array', 'times': [0.0, 1e-5], 'temps': [T0 - 30, T0 + 30]}])
        cfg['sibling'] = sib
    return {'cfg': cfg, 'ops': ops, 'cap': cap, 'pair': pair}


def prepare(tier, recs):
    W.preload([r['cfg']['backend'] for r in recs if r.get('kind') != 'diffusion'])


class TempMonitor:
    def __init__(self, m, cfg, backend, F, cnt):
        self.m, self.cfg, self.F, self.cnt = m, cfg, F, cnt
        self.spec = cfg['T']
        self.sig = set()
        self.table_T = None
        self.rebuilds = 0
        self.maxT = cfg.get('constraints', {}).get('maxTempChange', 1)
        self.binary = len(cfg['elements']) == 1
        self.stub = cfg['backend'].startswith('stub')
        self.backend = backend
        self.Tmin, self.Tmax = math.inf, -math.inf
        if self.binary:
            orig = m._createLookupBinary

            def tapped(T):
                self.table_T = float(T)
                self.rebuilds += 1
                return orig(T)
            m._createLookupBinary = tapped

    def on_step(self, m):
        F, cnt = self.F, self.cnt
        pd = m.pData
        n = pd.n
        cnt['steps'] += 1
        t, T = float(pd.time[n]), float(pd.temperature[n])
        ref = W.ref_temperature(self.spec, t)
        self.Tmin, self.Tmax = min(self.Tmin, T), max(self.Tmax, T)
        tol = 0.0 if self.spec['kind'] == 'const' else 4 * math.ulp(max(abs(ref), 1.0))
        if abs(T - ref) > tol:
            F.add('C13.recorded_temperature', f'step {n}: recorded temperature {T!r} at t={t!r} s, schedule gives {ref!r}', kind=self.spec['kind'])
        if n >= 1:
            dT = T - float(pd.temperature[n - 1])
            self.sig.add('heating' if dT > 0 else 'cooling' if dT < 0 else 'hold')
        if self.binary and self.table_T is not None:
            cnt['staleness_checks'] += 1
            if abs(self.table_T - T) > self.maxT * (1 + 1e-9):
                F.add('C13.stale_table', f'step {n}: interfacial-composition table in use was built at {self.table_T!r} K, current temperature {T!r} K, configured maxTempChange {self.maxT}',
                      direction='heating' if T > self.table_T else 'cooling')
            if self.stub:
                # black-box counterpart: recorded planar solvus within the bracket of the backend solvus at T +- maxTempChange
                inner = self.backend._inner
                for p, ph in enumerate(self.cfg['phases']):
                    xe = float(pd.xEqAlpha[n, p, 0])
                    if xe > 0:
                        lo = float(inner.xeq(T - self.maxT * (1 + 1e-9), ph)); hi = float(inner.xeq(T + self.maxT * (1 + 1e-9), ph))
                        lo, hi = min(lo, hi), max(lo, hi)
                        if not (lo * (1 - 1e-12) <= xe <= hi * (1 + 1e-12)):
                            F.add('C13.stale_solvus', f'step {n} phase {p}: recorded equilibrium matrix composition {xe!r} outside the solvus bracket [{lo!r},{hi!r}] for T={T!r} +- {self.maxT} K', direction='na')


class IncubationTap:
    """Which incubation formula the model evaluates (module-level seam: KWNBase calls nucfuncs.incubationTime / incubationTimeNonIsothermal)."""

    def __init__(self):
        import kawin.precipitation.NucleationRate as NR
        self.NR = NR
        self.orig = (NR.incubationTime, NR.incubationTimeNonIsothermal)
        self.calls = []

        def iso(*a, **kw):
            self.calls.append('isothermal')
            return self.orig[0](*a, **kw)

        def noniso(*a, **kw):
            self.calls.append('non-isothermal')
            return self.orig[1](*a, **kw)
        NR.incubationTime, NR.incubationTimeNonIsothermal = iso, noniso

    def drain(self):
        c, self.calls = self.calls, []
        return c

    def remove(self):
        self.NR.incubationTime, self.NR.incubationTimeNonIsothermal = self.orig


def execute_reschedule(rec):
    F = core.Failures()
    cnt = {k: 0 for k in ('steps', 'staleness_checks', 'pairs', 'table_rebuilds', 'runs_real', 'runs_stub', 'sim_time', 'capped', 'reschedules', 'incubation_checks')}
    cfg = copy.deepcopy(rec['cfg'])
    cnt['runs_stub'] = 1
    tap = IncubationTap()
    try:
        m, backend = W.build_model(cfg, keep_log=False)
        mon = TempMonitor(m, cfg, backend, F, cnt)
        state = {'kind': cfg['T']['kind']}

        class Treat:
            def on_step(self, mm):
                want = 'isothermal' if state['kind'] == 'const' else 'non-isothermal'
                for c in tap.drain():
                    cnt['incubation_checks'] += 1
                    if c != want:
                        F.add('C13.incubation_treatment', f'step {mm.pData.n}: the model evaluated the {c} incubation formula while the schedule in force is a {state["kind"]} specification', current=state['kind'])
                        break
        obs = W.Observer([mon, Treat()], rec.get('cap', 220))
        m.addCouplingModel(obs)

        def call_end(ci, info):
            if info.get('op') == 'set_temperature':
                mon.spec = info['spec']
                state['kind'] = info['spec']['kind']
                tap.drain()
                cnt['reschedules'] += 1
                mon.sig.add('resched:' + info['spec']['kind'])
                iso = bool(m.temperatureParameters._isIsothermal)
                if iso != (info['spec']['kind'] == 'const'):
                    F.add('C13.isothermal_flag', f'after setTemperature with a {info["spec"]["kind"]} specification the model reports isothermal={iso}', pair='reschedule')
        info = W.run_ops(m, rec['ops'], obs, F=None, on_call_end=call_end)
    finally:
        tap.remove()
    if info['exception'] is not None:
        raise core.Inconclusive(f'exception {info["exception"][0]} at {info["exception"][2]}')
    cnt['table_rebuilds'] = mon.rebuilds
    cnt['sim_time'] = float(m.pData.time[m.pData.n])
    cnt['capped'] = int(info['capped'])
    sig = f"reschedule:{cfg['backend']}:{cfg['T']['kind']}:" + ','.join(sorted(mon.sig))
    return core.result(F, sig=sig, nontrivial=cnt['steps'] >= 10 and cnt['reschedules'] >= 1 and cnt['incubation_checks'] >= 5, counters=cnt, digest=pdata_digest(m))


def run_variant(rec, variant, F, cnt, monitor=True):
    cfg = copy.deepcopy(rec['cfg'])
    if variant == 'ctor':
        cfg['T_via'] = 'ctor'
    elif variant == 'setter':
        cfg['T_via'] = 'setter'
    elif variant == 'array':
        cfg['T']['kind'] = 'array'
        cfg['T_via'] = rec['cfg'].get('T_via', 'setter')
    elif variant == 'func':
        cfg['T']['kind'] = 'func'
        cfg['T_via'] = rec['cfg'].get('T_via', 'setter')
    if cfg['backend'].startswith('real_'):
        W.real_backend(cfg['backend']).clearCache()      # both variants start from a cold thermodynamics object (C09 effects excluded)
    m, backend = W.build_model(cfg, keep_log=False)
    mons = []
    mon = None
    if monitor:
        mon = TempMonitor(m, cfg, backend, F, cnt)
        mons.append(mon)
    obs = W.Observer(mons, rec.get('cap', 220))
    m.addCouplingModel(obs)
    info = W.run_ops(m, rec['ops'], obs, F=None)
    if info['exception'] is not None:
        raise core.Inconclusive(f'exception {info["exception"][0]} at {info["exception"][2]}')
    return m, mon, info


def pdata_digest(m):
    D = core.Digest()
    from kawin.precipitation.PrecipitationParameters import PrecipitationData
    for name in PrecipitationData.ATTRIBUTES:
        D.add(np.ascontiguousarray(np.asarray(getattr(m.pData, name), dtype=float)))
    return D.hex()


def execute_diffusion(rec):
    """Diffusion part: the temperature field handed to every flux evaluation vs the schedule, and ctor vs setter pairs."""
    from ksim.props import c04
    F = core.Failures()
    cnt = {k: 0 for k in ('steps', 'ledger_checks', 'clip_steps', 'temp_checks', 'provider_calls', 'sim_time', 'pairs')}
    finals = []
    for via in ('ctor', 'setter'):
        r = copy.deepcopy(rec)
        r['cfg']['T_via'] = via
        c2 = {k: 0 for k in cnt}
        m, info, sig, D, capped = c04.run_and_check(r, F, c2, prefix='C04', check_temp=(via == 'ctor'))
        finals.append((np.array(m.x, copy=True), float(m.t)))
        if via == 'ctor':
            for k in c2:
                cnt[k] = c2[k]
    cnt['pairs'] = 1
    if finals[0][1] != finals[1][1] or not np.array_equal(finals[0][0], finals[1][0], equal_nan=True):
        F.add('C13.equivalent_specs_differ', f'diffusion runs with the schedule supplied through the constructor object and through the setter differ (end times {finals[0][1]!r} / {finals[1][1]!r})', pair='ctor_setter_diffusion')
    fl = [f for f in F.items if f['check'].startswith('C13.')]
    kind = rec['cfg']['T']['kind']
    return core.result(fl, sig=f"diffusion:{rec['cfg']['model']}:{kind}", nontrivial=cnt['temp_checks'] >= 10 and kind != 'const', counters=cnt, digest='')


def execute(rec):
    if rec.get('kind') == 'diffusion':
        return execute_diffusion(rec)
    if rec.get('kind') == 'reschedule':
        return execute_reschedule(rec)
    F = core.Failures()
    cnt = {k: 0 for k in ('steps', 'staleness_checks', 'pairs', 'table_rebuilds', 'runs_real', 'runs_stub', 'sim_time', 'capped')}
    cfg = rec['cfg']
    cnt['runs_real' if cfg['backend'].startswith('real_') else 'runs_stub'] = 1
    a, b = ('ctor', 'setter') if rec['pair'] == 'ctor_setter' else ('array', 'func')
    m1, mon, info = run_variant(rec, a, F, cnt, monitor=True)
    m2, _, _ = run_variant(rec, b, F, cnt, monitor=False)
    cnt['pairs'] = 1
    cnt['table_rebuilds'] = mon.rebuilds
    cnt['sim_time'] = float(m1.pData.time[m1.pData.n])
    cnt['capped'] = int(info['capped'])
    iso1, iso2 = bool(m1.temperatureParameters._isIsothermal), bool(m2.temperatureParameters._isIsothermal)
    if iso1 != iso2:
        F.add('C13.isothermal_flag', f'the same schedule supplied as {a} is treated as isothermal={iso1}, supplied as {b} as isothermal={iso2}', pair=rec['pair'])
    d1, d2 = pdata_digest(m1), pdata_digest(m2)
    if d1 != d2:
        n1, n2 = m1.pData.n, m2.pData.n
        k = 0
        tt1, tt2 = np.asarray(m1.pData.time), np.asarray(m2.pData.time)
        while k < min(n1, n2) and tt1[k] == tt2[k] and np.array_equal(m1.pData.nucRate[k], m2.pData.nucRate[k]):
            k += 1
        F.add('C13.equivalent_specs_differ', f'runs with the schedule supplied as {a} and as {b} differ (steps {n1} vs {n2}; first difference in time/nucleation rate at step {k})', pair=rec['pair'])
    if mon.rebuilds > 1:
        mon.sig.add('rebuild')
    span = mon.Tmax - mon.Tmin
    nontrivial = cnt['steps'] >= 10 and (span > mon.maxT or cfg['T']['kind'] == 'const')
    sig = f"{cfg['backend']}:{cfg['T']['kind']}:{rec['pair']}:" + ','.join(sorted(mon.sig))
    return core.result(F, sig=sig, nontrivial=nontrivial, counters=cnt, digest=d1)


def shrink_candidates(rec):
    if rec.get('kind') == 'diffusion':
        from ksim.props import c04
        for r in c04.shrink_candidates(rec):
            yield r
        return
    for r in W.shrink_run_record(rec):
        if rec.get('kind') != 'reschedule' or any(o['op'] == 'set_temperature' for o in r['ops']):
            yield r
    T = rec['cfg']['T']
    if T['kind'] != 'const' and len(T['times']) > 2:
        for i in range(1, len(T['times'])):
            r = copy.deepcopy(rec)
            del r['cfg']['T']['times'][i]; del r['cfg']['T']['temps'][i]
            yield r
    if T['kind'] != 'const':
        r = copy.deepcopy(rec); r['cfg']['T']['temps'] = [round(v) for v in T['temps']]; yield r
