"""C03 - precipitation runs are well formed for every configuration and survive backend faults.

Three run modes (kept apart so the narrow relaxations under faults cannot hide an ordinary bug):
  faultfree : swarm of configurations (stub + real backends), 1-4 solve calls, no faults
  enum      : fixed short workloads; one run per fault position k (single fault and burst of 3)
              -> every single-fault position of the workload is covered
  seq       : seeded Bernoulli / burst fault schedules, biased to land after grid events and call seams
Fault kinds: growth_none (backend proxy returns None from getGrowthAndInterfacialComposition),
eq_none (real MulticomponentThermodynamics._getCompositionSetsEq returns None: exercises kawin's own
fallback in MultiTherm.curvatureFactor).  unstable_sentinel / df_none are run as informational probes only.
"""
import math, copy
import numpy as np
from ksim import core, stubs
from ksim import precipworld as W
from kawin.precipitation.PrecipitationParameters import PrecipitationData

ID = 'C03'
LEVEL = 'fault_enumeration'
RULE = ('Runs are (a) fault-free swarm configurations (stub binary / stub ternary 1-3 phases / real Al-Zr, Ni-Cr-Al, Al-Mg-Si; all site types, shapes, '
        'volume specifications, grids, constraint switches, both iterators, 1-4 solve calls, compositions inside/at the edge/outside the two-phase region), '
        '(b) enumeration: for each fixed workload one run per backend-call index k=1..Kmax with a single "no result" at call k and one with a burst of 3, '
        '(c) seeded fault sequences (rate 0.5-20%, bursts). Shapes include aspect ratio exactly 1 and a radius-dependent aspect-ratio function; configurations as in C01 (floors, constraints, zero grain-boundary energy). Non-trivial = at least 5 accepted steps and, in fault modes, at least one fault fired; '
        'distinct = distinct record digest; signature = (mode, backend, phases, events: nucleation, grid extend/re-mesh, fallback taken, clamp, dissolution).')
ASSUMPTIONS = ['Admissible configurations: grain-boundary energy ratio below each site type\'s limit, GB sites with spherical shape, admissible PBM class counts, positive volumes/energies.',
               'A backend fault is injected only after that query succeeded once for that phase (transient failure with a last valid value); first-call failures are counted separately and never reported as violations.',
               'Conservation (C01) is not asserted in fault mode.',
               'End time compared exactly (after the solver fix); time stamps must be strictly increasing.']
COMPONENTS = {'real': ['kawin.precipitation.* (PrecipitateModel, PopulationBalanceModel, NucleationRate, parameters)', 'kawin.solver.*', 'kawin.GenericModel',
                       'kawin.thermo Binary/MulticomponentThermodynamics + pycalphad in the real-backend runs'],
              'stub': ['analytic dilute-solution thermodynamics backend (ksim.stubs) in the stub runs', 'fault-injecting proxy in front of the backend']}

ENUM_KMAX = {'quick': 40, 'thorough': 120}
N_WORK = {'quick': 6, 'thorough': 30}


def plan(tier):
    if tier == 'quick':
        return dict(runs=400 + N_WORK['quick'] * ENUM_KMAX['quick'] * 2 + 400, batch=4, hard_timeout=600, soft_timeout=120)
    return dict(runs=6000 + N_WORK['thorough'] * ENUM_KMAX['thorough'] * 2 + 6000, batch=8, hard_timeout=1800, soft_timeout=300)


def _sizes(tier):
    nff = 400 if tier == 'quick' else 6000
    nenum = N_WORK[tier] * ENUM_KMAX[tier] * 2
    return nff, nenum


def workload(w, tier):
    """Fixed short workloads for the enumeration mode (deterministic in w)."""
    import random
    rng = random.Random(1000 + w)
    if w % 6 == 5:
        cfg = W.real_config('real_nicral')
        ops = [{'op': 'solve', 'T': 0.3, 'it': 'euler', 'minf': 1e-2, 'maxf': 1.0}]
        cap = 25
    else:
        cfg = W.gen_stub_config(rng, nel=2, nphase=1 + (w % 3), allow_gb=(w % 2 == 0))
        cfg['pbm'].update({'cMax': 5e-9, 'bins': 40, 'minBins': 20, 'maxBins': 60})
        it = 'euler' if w % 2 == 0 else 'rk4'
        ops = [{'op': 'solve', 'T': 0.02, 'it': it, 'minf': 1e-6, 'maxf': 1.0}, {'op': 'solve', 'T': 0.1, 'it': it, 'minf': 1e-6, 'maxf': 1.0}]
        cap = 30 if it == 'euler' else 10
    return cfg, ops, cap


def generate(rng, tier, index):
    nff, nenum = _sizes(tier)
    if index < nff:
        r = rng.random()
        if r < 0.82:
            cfg = W.gen_stub_config(rng)
            # composition inside / at the edge of / outside the two-phase region
            rr = rng.random()
            if rr < 0.12:
                for p in cfg['phases']:
                    th = cfg['phase_params'][p]['thermo']
                    th['xeq'] = [x * rng.choice([0.9, 1.0, 1.5, 3.0]) for x in cfg['x0']] if rr < 0.08 else [x * 1.0001 for x in th['xeq']]
            ops = W.gen_solve_ops(rng)
            cap = 250
            if rng.random() < 0.25:
                cfg['record_psd'] = True
        else:
            kind = rng.choice(['real_alzr', 'real_alzr', 'real_nicral', 'real_almgsi'])
            cfg = W.real_config(kind, rng)
            base = {'real_alzr': 10.0, 'real_nicral': 0.3, 'real_almgsi': 10.0}[kind]
            ops = []
            T = base
            for _ in range(rng.choice([1, 2, 3])):
                ops.append({'op': 'solve', 'T': T, 'it': rng.choice(['euler', 'rk4']), 'minf': rng.choice([1e-2, 2e-2]), 'maxf': 1.0})
                T *= 10
            cap = 90
        return {'mode': 'faultfree', 'cfg': cfg, 'ops': ops, 'faults': [], 'cap': cap}
    if index < nff + nenum:
        j = index - nff
        kmax = ENUM_KMAX[tier]
        w = j // (2 * kmax)
        k = (j % (2 * kmax)) // 2 + 1
        burst = j % 2
        cfg, ops, cap = workload(w, tier)
        kind = 'growth_none'
        return {'mode': 'enum', 'workload': w, 'cfg': cfg, 'ops': ops, 'cap': cap,
                'faults': [{'kind': kind, 'n': k, 'len': 3 if burst else 1}]}
    # seeded sequences
    real = rng.random() < 0.06
    if real:
        cfg = W.real_config('real_nicral', rng)
        ops = [{'op': 'solve', 'T': 0.3, 'it': rng.choice(['euler', 'rk4']), 'minf': 1e-2, 'maxf': 1.0}, {'op': 'solve', 'T': 3.0, 'it': 'euler', 'minf': 1e-2, 'maxf': 1.0}]
        cap = 60
    else:
        cfg = W.gen_stub_config(rng, nel=2)
        ops = W.gen_solve_ops(rng)
        cap = 200
    rate = 10 ** rng.uniform(math.log10(0.005), math.log10(0.2))
    faults = []
    n = 1
    horizon = 1200
    while n < horizon:
        if rng.random() < rate:
            ln = rng.choice([1, 1, 1, 2, 3, 8])
            faults.append({'kind': 'growth_none', 'n': n, 'len': ln})
            n += ln
        n += 1
    rec = {'mode': 'seq', 'cfg': cfg, 'ops': ops, 'faults': faults, 'cap': cap}
    if real and rng.random() < 0.7:
        rec['eq_none'] = sorted(rng.sample(range(5, 200), rng.randint(1, 8)))
    if rng.random() < 0.1:
        rec['allow_first'] = True
    return rec


def prepare(tier, recs):
    W.preload([r['cfg']['backend'] for r in recs])


class WellFormed:
    """Invariants after every accepted step (observer) and over the whole history after each call."""

    def __init__(self, F, cnt, prefix='C03'):
        self.F, self.cnt, self.pre = F, cnt, prefix
        self.sig = set()
        self.prev_bins = None

    def on_step(self, m):
        F, pre = self.F, self.pre
        pd = m.pData
        n = pd.n
        self.cnt['steps'] += 1
        if len(pd.time) != n + 1:
            F.add(pre + '.aligned', f'step {n}: pData.n={n} but len(time)={len(pd.time)}', where='step')
        t = pd.time
        if n >= 1 and not t[n] > t[n - 1]:
            F.add(pre + '.time_increasing', f'step {n}: time {t[n]!r} not greater than previous {t[n - 1]!r}', where='step')
        for name in PrecipitationData.ATTRIBUTES:
            row = np.asarray(getattr(pd, name)[n], dtype=float)
            if not np.all(np.isfinite(row)):
                F.add(pre + '.finite', f'step {n} (t={t[n]!r}): recorded {name} is not finite: {row}', attr=name)
        vf = np.asarray(pd.volFrac[n])
        if np.any(vf < 0) or np.any(vf > 1):
            F.add(pre + '.volfrac_range', f'step {n}: volume fractions {vf} outside [0,1]', kind='single')
        elif np.sum(vf) > 1 + 1e-12:
            kind = 'sum_with_phase_clamped_at_1' if np.any(vf == 1.0) else 'sum'
            F.add(pre + '.volfrac_range', f'step {n}: total precipitate fraction {np.sum(vf)!r} > 1 (per phase {vf})', kind=kind)
        x = np.asarray(pd.composition[n])
        if np.any(x < 0) or np.any(x > 1):
            F.add(pre + '.composition_range', f'step {n}: matrix composition {x} outside [0,1]', where='step')
        for name in ('Ravg', 'Rcrit', 'Rnuc', 'precipitateDensity'):
            v = np.asarray(getattr(pd, name)[n])
            if np.any(v < 0):
                F.add(pre + '.nonneg', f'step {n}: {name} = {v} negative', attr=name)
        for p in range(len(m.phases)):
            psd = np.asarray(m.PBM[p].PSD, dtype=float)
            if not np.all(np.isfinite(psd)) or np.any(psd < 0):
                i = int(np.argmin(np.where(np.isfinite(psd), psd, -np.inf)))
                F.add(pre + '.psd_nonneg', f'step {n}: size distribution of phase {p} has value {psd[i]!r} in class {i}', where='step')
            if len(psd) != m.PBM[p].bins or len(m.PBM[p].PSDbounds) != m.PBM[p].bins + 1:
                F.add(pre + '.aligned', f'step {n}: phase {p} PSD/bounds lengths inconsistent with bins', where='pbm')
            g = np.asarray(m.growth[p], dtype=float)
            if len(g) != m.PBM[p].bins + 1:
                F.add(pre + '.aligned', f'step {n}: growth field of phase {p} has length {len(g)}, grid has {m.PBM[p].bins + 1} boundaries', where='growth')
            if pd.precipitateDensity[n, p] > 0:
                self.sig.add('nucleated')
            if pd.volFrac[n, p] > 1e-6:
                self.sig.add('grown')
        bins = tuple(b.bins for b in m.PBM)
        if self.prev_bins is not None and bins != self.prev_bins:
            self.sig.add('grid_event')
            self.cnt['grid_events'] += 1
        self.prev_bins = bins
        if n >= 1 and np.any(pd.precipitateDensity[n] < pd.precipitateDensity[n - 1] * 0.999):
            self.sig.add('dissolving')

    def after_call(self, m, call):
        F, pre = self.F, self.pre
        pd = m.pData
        n = pd.n
        shapes = {'time': (n + 1,), 'temperature': (n + 1,), 'composition': (n + 1, len(m.elements)),
                  'xEqAlpha': (n + 1, len(m.phases), len(m.elements)), 'xEqBeta': (n + 1, len(m.phases), len(m.elements)),
                  'fconc': (n + 1, len(m.phases), len(m.elements))}
        for name in PrecipitationData.ATTRIBUTES:
            a = np.asarray(getattr(pd, name))
            want = shapes.get(name, (n + 1, len(m.phases)))
            if a.shape != want:
                F.add(pre + '.aligned', f'after call {call["ci"]}: pData.{name} has shape {a.shape}, expected {want}', attr=name)
            elif not np.all(np.isfinite(a.astype(float))):
                F.add(pre + '.finite', f'after call {call["ci"]}: pData.{name} contains non-finite values', attr=name)
        t = np.asarray(pd.time, dtype=float)
        if len(t) > 1 and not np.all(np.diff(t) > 0):
            k = int(np.argmax(np.diff(t) <= 0))
            F.add(pre + '.time_increasing', f'after call {call["ci"]}: time stamps not strictly increasing at index {k}: {t[k]!r}, {t[k + 1]!r}', where='history')
        if call['ended'] == 'complete':
            if t[-1] != call['t_end_req']:
                F.add(pre + '.end_time', f'call {call["ci"]}: run ended at {t[-1]!r}, requested {call["t_end_req"]!r}', where='history')
        for p in range(len(m.phases)):
            rp = m.PBM[p]._recordedPSD
            if rp is not None and np.any(np.asarray(rp) < 0):
                F.add(pre + '.psd_nonneg', f'after call {call["ci"]}: recorded PSD of phase {p} has negative entries', where='recorded')


def install_growth_fallback_tap(m, backend, F, cnt, prefix='C03'):
    """After a `None` growth result at non-negative driving force the growth field in use must be the
    previous one (KWNEuler: "just use previous values")."""
    if m.numberOfElements == 1:
        return
    orig = m._singleGrowthMulti

    def wrapped(p, Y):
        prev = np.array(m.growth[p], dtype=float, copy=True) if getattr(m, 'growth', None) is not None else None
        nf = len(backend.fault_log)
        out = orig(p, Y)
        if len(backend.fault_log) > nf and backend.fault_log[-1][0] == 'growth_none':
            cnt['fallback_taken'] += 1
            dG = float(Y.drivingForce[0, p])
            if dG >= 0:
                cnt['fallback_positive_dG'] += 1
                g = np.asarray(out[0], dtype=float)
                if prev is None or g.shape != prev.shape or not np.array_equal(g, prev):
                    F.add(prefix + '.fallback_growth', f'backend returned no result for phase {p} at dG={dG:.3e} >= 0 but the growth field in use is not the previous one', where='_singleGrowthMulti')
            else:
                cnt['fallback_negative_dG'] += 1
        return out
    m._singleGrowthMulti = wrapped


def install_eq_none(backend_inner, indices, cnt):
    """Real backend: make _getCompositionSetsEq return None at scripted call indices (NaN chemical potentials)."""
    orig = backend_inner._getCompositionSetsEq
    state = {'n': 0}
    idx = set(indices)

    def wrapped(*a, **kw):
        k = state['n']
        state['n'] += 1
        if k in idx:
            cnt['fault_eq_none'] += 1
            return None
        return orig(*a, **kw)
    backend_inner._getCompositionSetsEq = wrapped


def execute(rec):
    F = core.Failures()
    D = core.Digest()
    cnt = {k: 0 for k in ('steps', 'grid_events', 'fallback_taken', 'fallback_positive_dG', 'fallback_negative_dG', 'fault_growth_none',
                          'fault_eq_none', 'fault_first_call', 'sim_time', 'runs_real', 'runs_stub', 'capped', 'out_of_scope_first_call')}
    cfg = rec['cfg']
    m, backend = W.build_model(cfg, faults=rec.get('faults', ()), allow_first=rec.get('allow_first', False), keep_log=False)
    real = cfg['backend'].startswith('real_')
    cnt['runs_real' if real else 'runs_stub'] = 1
    if rec.get('eq_none') and real:
        install_eq_none(backend._inner, rec['eq_none'], cnt)
    wf = WellFormed(F, cnt)
    install_growth_fallback_tap(m, backend, F, cnt)
    obs = W.Observer([wf], rec.get('cap', 250))
    m.addCouplingModel(obs)
    if rec['mode'] != 'faultfree':
        # faults are transient failures of a running model: the first evaluation of every phase (setup) is fault-free
        try:
            m.setup()
        except Exception as e:  # noqa
            F.add('C03.exception.' + type(e).__name__, f'setup raised {type(e).__name__}: {e}', exc=type(e).__name__, loc='setup')
            return core.result(F, sig='setup_failed', nontrivial=False, counters=cnt)
        backend.armed = True

    def on_call_end(ci, call):
        if call['ended'] in ('complete', 'capped'):
            wf.after_call(m, call)
    info = W.run_ops(m, rec['ops'], obs, F=F, on_call_end=on_call_end, prefix='C03')
    cnt['fault_growth_none'] = backend.fired['growth_none']
    cnt['fault_first_call'] = backend.fired['first_call']
    cnt['capped'] = int(info['capped'])
    pd = m.pData
    cnt['sim_time'] = float(pd.time[pd.n])
    D.add(*[float(x) for x in pd.time], np.asarray(pd.composition, dtype=float), np.asarray(pd.volFrac, dtype=float))
    failures = F.items
    if backend.fired['first_call']:
        # first-call failures are outside C03's statement: reported as a counter, never as a violation
        cnt['out_of_scope_first_call'] = 1
        failures = []
    fired = backend.fired['growth_none'] + cnt['fault_eq_none']
    nontrivial = cnt['steps'] >= 5 and (rec['mode'] == 'faultfree' or fired > 0)
    if fired:
        wf.sig.add('fault_fired')
    if cnt['fallback_positive_dG']:
        wf.sig.add('fallback+')
    if cnt['fallback_negative_dG']:
        wf.sig.add('fallback-')
    sig = f"{rec['mode']}:{cfg['backend']}:{len(cfg['phases'])}:" + ','.join(sorted(wf.sig))
    return core.result(failures, sig=sig, nontrivial=nontrivial, counters=cnt, digest=D.hex())


def extra_coverage(tier, recs, results):
    kmax = ENUM_KMAX[tier]
    per = {}
    for i, rec in recs:
        if rec.get('mode') == 'enum':
            w = rec['workload']
            d = per.setdefault(w, {'positions': 0, 'fired': 0, 'backend': rec['cfg']['backend'], 'phases': len(rec['cfg']['phases'])})
            d['positions'] += 1
            if results[i].get('counters', {}).get('fault_growth_none', 0) > 0:
                d['fired'] += 1
    return {'enumeration': {'positions_per_workload': kmax, 'workloads': {str(k): v for k, v in sorted(per.items())},
                            'note': 'for each workload every call index 1..Kmax is hit by one single-fault run and one burst-of-3 run; indices beyond the number of calls the workload makes cannot fire and are counted as not fired'}}


def shrink_candidates(rec):
    for c in core.ddmin_candidates(rec.get('faults', [])):
        r = copy.deepcopy(rec); r['faults'] = c; yield r
    if len(rec['ops']) > 1:
        for c in core.ddmin_candidates(rec['ops']):
            if c:
                r = copy.deepcopy(rec); r['ops'] = c; yield r
    for i, op in enumerate(rec['ops']):
        if op['T'] > 1e-4:
            r = copy.deepcopy(rec); r['ops'][i]['T'] = op['T'] / 2; yield r
        if op['it'] != 'euler':
            r = copy.deepcopy(rec); r['ops'][i]['it'] = 'euler'; yield r
    if rec.get('cap', 0) > 20:
        r = copy.deepcopy(rec); r['cap'] = max(10, rec['cap'] // 2); yield r
    cfg = rec['cfg']
    if len(cfg['phases']) > 1 and not cfg['backend'].startswith('real_'):
        for drop in cfg['phases']:
            r = copy.deepcopy(rec)
            r['cfg']['phases'] = [p for p in cfg['phases'] if p != drop]
            r['cfg']['thermo_phase_order'] = [p for p in cfg['thermo_phase_order'] if p != drop]
            yield r
    if cfg.get('constraints'):
        r = copy.deepcopy(rec); r['cfg']['constraints'] = {}; yield r
    for p in cfg['phases']:
        pp = cfg['phase_params'][p]
        for key, val in (('site', 'bulk'), ('shape', 'sphere'), ('infDiff', True)):
            if pp.get(key, val) != val:
                r = copy.deepcopy(rec); r['cfg']['phase_params'][p][key] = val
                if key == 'shape':
                    r['cfg']['phase_params'][p]['ar'] = 1.0
                yield r
    if cfg.get('betaBinary'):
        r = copy.deepcopy(rec); del r['cfg']['betaBinary']; yield r
    if rec.get('eq_none'):
        for c in core.ddmin_candidates(rec['eq_none']):
            r = copy.deepcopy(rec); r['eq_none'] = c; yield r
