"""C05 - the solver honours its time and state contract for any model.

World: kawin's real DESolver + built-in iterators + Coupler, driving scripted probe models
(ksim.solverworld).  Schedule = the dt proposals / stop requests of the plug-in model(s) and the
sequence of solve() calls.  Faults = adversarial model behaviour (0, negative, inf, NaN, wild dt).
Oracle = the contract stated in the property, evaluated on the accepted-time history recorded
by the model's own postProcess callback, plus a structure check in every callback.
"""
import math, copy, random
import numpy as np
from ksim import core
from ksim import solverworld as sw

ID = 'C05'
LEVEL = 'exploration'
RULE = ('Each run = one seeded record: 1 probe model or a Coupler of 2-3 probe models with differently shaped '
        'states (python floats, numpy scalars, 1-D arrays, rank-2/3 arrays with own flatten), a scripted list of dt '
        'proposals (incl. 0, negative, inf, NaN, 1e-300, 1e300, values over 8 decades), optional stop requests, '
        '1-4 consecutive solve calls with seeded duration, start time, min/max step fractions and iterator. '
        'A third of the couplers contain a sub-model whose own clock differs from the clock of the Coupler (solved on its own before); every 25th run couples a real PrecipitateModel with a real SinglePhaseModel. Non-trivial = at least 2 accepted steps in some call; distinct = distinct record digest; behaviour signature = '
        '(kind, iterators, adversarial proposal kinds used, stop fired, clamp-to-min / clamp-to-max / final-short-step observed).')
ASSUMPTIONS = ['Resolution precondition: minDtFrac*dt_total >= 8 ulp(t0+dt_total) (below that no floating-point clock can advance).',
               'The probe model is a well-formed GenericModel apart from its dt proposals (it returns derivatives in the structure it supplied).',
               'Step-size bounds are compared with a tolerance of 4 ulp of the end time (time stamps are sums of rounded floats).']
COMPONENTS = {'real': ['real PrecipitateModel (analytic backend) + SinglePhaseModel (synthetic diffusivity) coupled through Coupler in 4% of the runs', 'kawin.solver.Solver.DESolver', 'kawin.solver.Iterators', 'kawin.GenericModel.GenericModel.solve/flattenX/unflattenX',
                       'kawin.GenericModel.Coupler'], 'stub': ['plug-in model (scripted probe model by design: it is the adversary)']}


def plan(tier):
    if tier == 'quick':
        return dict(runs=3000, batch=25, hard_timeout=600, soft_timeout=60)
    return dict(runs=60000, batch=200, hard_timeout=900, soft_timeout=30)


SPECIAL = ['0.0', '-1.0', 'inf', 'nan', '1e-300', '1e300', '-inf', '-0.0']


def gen_template(rng, custom):
    tpl = []
    for _ in range(rng.randint(1, 5)):
        r = rng.random()
        if custom and r < 0.5:
            shape = [rng.randint(1, 4) for _ in range(rng.choice([2, 2, 3]))]
            tpl.append({'k': 'nd', 'shape': shape})
        elif r < 0.25:
            tpl.append({'k': 'py'})
        elif r < 0.5:
            tpl.append({'k': 'np'})
        else:
            tpl.append({'k': 'arr', 'shape': [rng.randint(1, 7)]})
    return tpl


def generate(rng, tier, index):
    if index % 25 == 24:
        # real models with differently shaped states coupled together: precipitation (list of per-phase 1-D arrays whose lengths change
        # when a size grid is extended / re-meshed) + diffusion (one 2-D array with its own flatten)
        from ksim import precipworld as PW, diffworld as DW
        pcfg = PW.gen_stub_config(rng, nphase=rng.choice([1, 2, 3]))
        dcfg = DW.gen_config(rng, model='single', real_ok=False)
        calls = [{'T': 10 ** rng.uniform(-2.5, -1.3), 'min': rng.choice([1e-3, 5e-3, 2e-2]), 'max': rng.choice([1.0, 0.1]), 'it': rng.choice(['euler', 'rk4'])} for _ in range(rng.choice([1, 2, 3]))]
        return {'kind': 'real_pair', 'pcfg': pcfg, 'dcfg': dcfg, 'calls': calls, 'order': rng.choice(['pd', 'dp'])}
    kind = 'single' if rng.random() < 0.55 else 'coupler'
    nmod = 1 if kind == 'single' else rng.randint(1, 3)
    ncalls = rng.choice([1, 1, 2, 3, 4])
    t0 = 0.0
    if kind == 'single':
        t0 = rng.choice([0.0, 0.0, rng.uniform(0, 10), 10 ** rng.uniform(2, 6)])
    calls = []
    t = t0
    for _ in range(ncalls):
        for _try in range(50):
            T = 10 ** rng.uniform(-6, 6)
            minf = 10 ** rng.uniform(-3.3 if tier == 'quick' else -4, math.log10(0.5))
            if minf * T >= 8 * math.ulp(t + T):
                break
        else:
            T = max(1.0, t)
            minf = 0.01
        maxf = rng.choice([1.0, 1.0, minf, 10 ** rng.uniform(math.log10(minf), 0)])
        calls.append({'T': T, 'min': minf, 'max': maxf, 'it': rng.choice(['euler', 'rk4', 'euler_wrapped', 'rk4_wrapped'])})
        t = t + T
    total = sum(c['T'] for c in calls)
    models = []
    for j in range(nmod):
        custom = rng.random() < 0.3
        nd = rng.randint(3, 12)
        dts = []
        mode = rng.choice(['wild', 'wild', 'sane', 'special_heavy', 'tiny', 'huge'])
        Tref = rng.choice(calls)['T']
        for _ in range(nd):
            r = rng.random()
            if mode == 'special_heavy' or (mode == 'wild' and r < 0.3):
                dts.append(rng.choice(SPECIAL))
            elif mode == 'tiny':
                dts.append(repr(Tref * 10 ** rng.uniform(-9, -3)))
            elif mode == 'huge':
                dts.append(repr(Tref * 10 ** rng.uniform(0, 3)))
            elif mode == 'sane':
                dts.append(repr(Tref * 10 ** rng.uniform(-2, -0.5)))
            else:
                dts.append(repr(Tref * 10 ** rng.uniform(-6, 2)))
        stop_at = None
        if rng.random() < 0.35:
            stop_at = rng.randint(1, 12)
        models.append({'template': gen_template(rng, custom), 'custom': custom, 'rate': rng.uniform(0.1, 5) / total,
                       'dts': dts, 'stop_at': stop_at, 't0': t0})
    if kind == 'coupler' and rng.random() < 0.3:
        # one of the coupled models was solved on its own before (its clock is not the Coupler's clock)
        models[rng.choice([len(models) - 1, rng.randrange(len(models))])]['own_clock'] = rng.choice([3.0, 1e3, rng.choice(calls)['T'] * rng.choice([0.5, 7.0])])
    return {'kind': kind, 't0': t0, 'models': models, 'calls': calls}


def execute_real_pair(rec):
    from ksim import precipworld as PW, diffworld as DW
    F = core.Failures()
    D = core.Digest()
    pm, _ = PW.build_model(rec['pcfg'], keep_log=False)
    dm, _ = DW.build(rec['dcfg'])
    models = [pm, dm] if rec['order'] == 'pd' else [dm, pm]
    top = sw.Coupler(models)
    cnt = {'steps': 0, 'calls': 0, 'sim_time': 0.0, 'grid_changes': 0, 'real_pair_runs': 1}
    problems = []

    def tap_model(m, name):
        og, op_ = m.getdXdt, m.postProcess

        def g(t, x, _og=og):
            ref = m.getCurrentX()[1]
            if sw.structure_of(x) != sw.structure_of(ref):
                problems.append((name + '.getdXdt', f'state structure {sw.structure_of(x)} differs from the model\'s own {sw.structure_of(ref)}'))
            return _og(t, x)

        def p(time, x, _op=op_):
            ref = m.getCurrentX()[1]
            if sw.structure_of(x) != sw.structure_of(ref):
                problems.append((name + '.postProcess', f'state structure {sw.structure_of(x)} differs from the model\'s own {sw.structure_of(ref)}'))
            return _op(time, x)
        m.getdXdt, m.postProcess = g, p
    tap_model(pm, 'precipitation')
    tap_model(dm, 'diffusion')
    bins0 = [b.bins for b in pm.PBM]
    for ci, call in enumerate(rec['calls']):
        t_start = float(top.time[-1])
        tf = t_start + call['T']
        n0 = len(top.time)
        try:
            top.solve(call['T'], solverType=sw.ITER[call['it']], minDtFrac=call['min'], maxDtFrac=call['max'])
        except Exception as e:  # noqa
            if 'sum up to above 1' in str(e):
                # the diffusion model's own input validation (the synthetic profile left the admissible domain): end of this run, no verdict on the solver
                cnt['domain_exit'] = cnt.get('domain_exit', 0) + 1
                break
            F.add('C05.exception', f'coupled real models, call {ci}: solve raised {type(e).__name__}: {e}', call=ci, exc=type(e).__name__)
            break
        times = [float(t) for t in top.time[n0:]]
        cnt['calls'] += 1
        cnt['steps'] += len(times)
        D.add(ci, *times)
        if not times or times[-1] != tf:
            F.add('C05.end_time', f'coupled real models, call {ci}: ended at {times[-1] if times else None!r}, requested {tf!r}', call=ci)
        if any(b <= a for a, b in zip([t_start] + times[:-1], times)):
            F.add('C05.monotone', f'coupled real models, call {ci}: accepted times not strictly increasing', call=ci)
        span = tf - t_start
        seq = [t_start] + times
        tol = 4 * sw.ulp(tf)
        for k in range(1, len(seq)):
            dt = seq[k] - seq[k - 1]
            # (the final step lands on the end time: its recorded increment may exceed the step taken by the round-off the landing rule absorbs, < 1e-10 of it)
            if dt > call['max'] * span * (1 + 2e-10) + tol or (dt < call['min'] * span - tol and k != len(seq) - 1):
                F.add('C05.step_bounds', f'coupled real models, call {ci} step {k}: dt={dt!r} outside [{call["min"] * span!r}, {call["max"] * span!r}]', call=ci, side='pair')
                break
        if float(pm.pData.time[pm.pData.n]) != times[-1] or float(dm.t) != times[-1]:
            F.add('C05.coupler_clock', f'coupled real models, call {ci}: sub-model clocks {float(pm.pData.time[pm.pData.n])!r} / {float(dm.t)!r} differ from the coupler clock {times[-1]!r}', call=ci)
        cnt['sim_time'] += times[-1] - t_start
    if [b.bins for b in pm.PBM] != bins0:
        cnt['grid_changes'] = 1
    for where, what in problems[:3]:
        F.add('C05.structure', f'coupled real models at {where}: {what}', where=where.split('.')[0])
    sig = 'real_pair:' + rec['order'] + ':' + str(len(rec['pcfg']['phases'])) + (':grid' if cnt['grid_changes'] else '')
    return core.result(F, sig=sig, nontrivial=cnt['steps'] >= 4, counters=cnt, digest=D.hex())


def execute(rec):
    if rec['kind'] == 'real_pair':
        return execute_real_pair(rec)
    F = core.Failures()
    D = core.Digest()
    models = [sw.ProbeModel(ms, j) for j, ms in enumerate(rec['models'])]
    if rec['kind'] == 'single':
        top = models[0]
    else:
        top = sw.Coupler(models)
    cnt = {'steps': 0, 'calls': 0, 'stop_fired': 0, 'clamp_min': 0, 'clamp_max': 0, 'final_short': 0, 'sim_time': 0.0,
           'fault_adversarial_dt': 0}
    sigbits = set()
    nontrivial = False

    class Cap(Exception):
        pass

    for ci, call in enumerate(rec['calls']):
        t_start = models[0].time[-1] if rec['kind'] == 'single' else float(top.time[-1])
        T, minf, maxf = call['T'], call['min'], call['max']
        tf = t_start + T
        span = tf - t_start
        # each step advances the clock by at least m - ulp(tf)/2 (time stamps are rounded sums)
        m_abs = minf * span
        bound = math.ceil((1.0 / minf) * (1.0 + sw.ulp(tf) / m_abs)) + 3
        n_before = [m.accepted for m in models]
        ev_before = [len(m.events) for m in models]
        # liveness cap: a probe postProcess wrapper raising after `bound` accepted steps
        caps = []
        for m in models:
            orig = m.postProcess

            def capped(time, x, _orig=orig, _m=m, _n0=m.accepted):
                if _m.accepted - _n0 > bound:
                    raise Cap()
                return _orig(time, x)
            m.postProcess = capped
            caps.append((m, orig))
        itname = call['it']
        wrapper = None
        if itname.endswith('_wrapped'):
            wrapper = sw.RecordingIterator(sw.ITER_FN[itname.split('_')[0]])
            solverType = wrapper
        else:
            solverType = sw.ITER[itname]
        try:
            top.solve(T, solverType=solverType, minDtFrac=minf, maxDtFrac=maxf)
        except Cap:
            F.add('C05.liveness', f'call {ci}: more than ceil(1/minDtFrac)(1+ulp/dtmin)+3={bound} accepted steps without reaching the end time', call=ci)
        except Exception as e:  # noqa
            F.add('C05.exception', f'call {ci}: solve raised {type(e).__name__}: {e}', call=ci, exc=type(e).__name__)
        finally:
            for m, orig in caps:
                m.postProcess = orig
        cnt['calls'] += 1
        m0 = models[0]
        times = m0.time[n_before[0] + 1:]
        accepted_events = [e for e in m0.events[ev_before[0]:] if e[0] == 'accept']
        D.add(ci, *times)
        cnt['steps'] += len(times)
        if len(times) >= 2:
            nontrivial = True
        # every model of a coupler must have seen the same accepted times
        for m in models[1:]:
            if m.time[n_before[models.index(m)] + 1:] != times:
                F.add('C05.coupler_clock', f'call {ci}: sub-model {m.tag} saw different accepted times than sub-model 0', call=ci)
        if rec['kind'] == 'coupler':
            ct = list(map(float, top.time[len(top.time) - len(times):])) if len(times) else []
            if ct != times:
                F.add('C05.coupler_clock', f'call {ci}: Coupler.time history differs from the times handed to the models', call=ci)
        stop_requested = any(e[2] for m in models for e in m.events[ev_before[models.index(m)]:] if e[0] == 'accept')
        tol = 4 * sw.ulp(tf)
        if not times:
            F.add('C05.end_time', f'call {ci}: no step accepted, model stays at {t_start!r}, requested end {tf!r}', call=ci)
            continue
        if not all(math.isfinite(t) for t in times):
            F.add('C05.finite_time', f'call {ci}: non-finite accepted time {[t for t in times if not math.isfinite(t)][0]!r}', call=ci)
            continue
        prev = t_start
        for k, t in enumerate(times):
            if not t > prev:
                F.add('C05.monotone', f'call {ci} step {k}: accepted time {t!r} not greater than previous {prev!r}', call=ci)
                break
            prev = t
        if max(times) > tf:
            F.add('C05.overshoot', f'call {ci}: accepted time {max(times)!r} exceeds end time {tf!r}', call=ci)
        if stop_requested:
            cnt['stop_fired'] += 1
            sigbits.add('stop')
            # run must end at the step that requested the stop
            for m in models:
                evs = [e for e in m.events[ev_before[models.index(m)]:] if e[0] == 'accept']
                idx = [k for k, e in enumerate(evs) if e[2]]
                if idx and idx[0] != len(evs) - 1:
                    F.add('C05.stop', f'call {ci}: stop requested at accepted step {idx[0] + 1} of this call but {len(evs)} steps were accepted', call=ci)
        else:
            if times[-1] != tf:
                F.add('C05.end_time', f'call {ci}: run ended at {times[-1]!r}, requested end time {tf!r} (t0={t_start!r}, dt_total={T!r})', call=ci)
        # step bounds
        m_lo, m_hi = minf * span, maxf * span
        seq = [t_start] + times
        for k in range(1, len(seq)):
            dt = seq[k] - seq[k - 1]
            last = (k == len(seq) - 1) and not stop_requested
            if dt > m_hi * (1 + (2e-10 if k == len(seq) - 1 else 0.0)) + tol:
                F.add('C05.step_bounds', f'call {ci} step {k}: dt={dt!r} above maxDtFrac*dt_total={m_hi!r}', call=ci, side='max')
                break
            if dt < m_lo - tol and not last:
                # a short step is only allowed as the last one (it must then land on the end time)
                if not (seq[k] == tf and k == len(seq) - 1):
                    F.add('C05.step_bounds', f'call {ci} step {k} of {len(seq) - 1}: dt={dt!r} below minDtFrac*dt_total={m_lo!r} and not the final step', call=ci, side='min')
                    break
            if abs(dt - m_lo) <= tol:
                cnt['clamp_min'] += 1; sigbits.add('cmin')
            if abs(dt - m_hi) <= tol:
                cnt['clamp_max'] += 1; sigbits.add('cmax')
            if last and dt < m_lo - tol:
                cnt['final_short'] += 1; sigbits.add('short')
        if wrapper is not None:
            if wrapper.mutated:
                F.add('C05.iterator_state', f'call {ci}: iterator modified the flat state it was given ({wrapper.mutated} steps)', call=ci)
            sigbits.add('wrap')
        cnt['sim_time'] += (times[-1] - t_start) if times else 0.0
        sigbits.add(itname.split('_')[0])
    for m in models:
        for where, what in m.problems[:3]:
            F.add('C05.structure', f'model {m.tag} at {where}: {what}', where=where.split('.')[0])
        for e in m.events:
            if e[0] == 'propose':
                v = e[1]
                if not (math.isfinite(v) and v > 0):
                    cnt['fault_adversarial_dt'] += 1
                    sigbits.add('adv:' + ('nan' if math.isnan(v) else 'inf' if math.isinf(v) else 'nonpos'))
    sig = rec['kind'] + str(len(models)) + ':' + ','.join(sorted(sigbits))
    return core.result(F, sig=sig, nontrivial=nontrivial, counters=cnt, digest=D.hex())


def shrink_candidates(rec):
    if rec['kind'] == 'real_pair':
        for c in core.ddmin_candidates(rec['calls']):
            if c:
                r = copy.deepcopy(rec); r['calls'] = c; yield r
        return
    # fewer calls
    for c in core.ddmin_candidates(rec['calls']):
        if c:
            r = copy.deepcopy(rec); r['calls'] = c; yield r
    # fewer models
    if len(rec['models']) > 1:
        for c in core.ddmin_candidates(rec['models']):
            if c:
                r = copy.deepcopy(rec); r['models'] = copy.deepcopy(c)
                if len(c) == 1 and rec['kind'] == 'coupler':
                    pass
                yield r
    if rec['kind'] == 'coupler' and len(rec['models']) == 1:
        r = copy.deepcopy(rec); r['kind'] = 'single'; yield r
    for j, m in enumerate(rec['models']):
        for c in core.ddmin_candidates(m['template']):
            if c:
                r = copy.deepcopy(rec); r['models'][j]['template'] = c; yield r
        for c in core.ddmin_candidates(m['dts']):
            if c:
                r = copy.deepcopy(rec); r['models'][j]['dts'] = c; yield r
        if m.get('stop_at') is not None:
            r = copy.deepcopy(rec); r['models'][j]['stop_at'] = None; yield r
            if m['stop_at'] > 1:
                r = copy.deepcopy(rec); r['models'][j]['stop_at'] = 1; yield r
        if m.get('custom'):
            if all(e['k'] != 'nd' for e in m['template']):
                r = copy.deepcopy(rec); r['models'][j]['custom'] = False; yield r
        for k, tok in enumerate(m['dts']):
            if tok not in SPECIAL:
                r = copy.deepcopy(rec); r['models'][j]['dts'][k] = repr(float('%.1g' % float(tok)))
                yield r
    if rec['t0'] != 0.0:
        r = copy.deepcopy(rec); r['t0'] = 0.0
        for m in r['models']:
            m['t0'] = 0.0
        yield r
    for i, c in enumerate(rec['calls']):
        for key, val in (('it', 'euler'), ('max', 1.0), ('min', 0.01), ('T', 1.0)):
            if c[key] != val:
                r = copy.deepcopy(rec); r['calls'][i][key] = val
                if r['calls'][i]['max'] < r['calls'][i]['min']:
                    continue
                yield r
