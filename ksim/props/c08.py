"""C08 - size-class grid operations stay consistent and conserve particle volume.
State machine over one real PopulationBalanceModel (ksim.pbmworld) with invariants after every op
and op-specific reference checks."""
from ksim import pbmworld as W

ID = 'C08'
LEVEL = 'exploration'
RULE = ('Each run = seeded PBM configuration (admissible class counts) + history of up to 18/25 ops from {UpdatePBMEuler, LoadDistribution, LoadDistributionFunction, '
        'addSizeClasses, changeSizeClasses (coarser/finer/shifted/grown/shrunk-to-populated, with or without explicit class count; 12% of runs also extreme 2-6 class re-meshes), '
        'adjustSizeClassesEuler, setAdaptiveBinSize, createBackup, revert, reset, reset(False), setPSDtoRecordedTime (recording on: before / on / between / after the recorded times), transport step, moment queries on a supplied distribution}. '
        'Non-trivial = a populated distribution or a transport step occurred; distinct = distinct record digest; signature = set of grid events seen (extend, re-mesh kinds, adjust outcomes, backup/revert, reset).')
ASSUMPTIONS = ['Admissible PBM configurations per the class docstring: even class counts, minBins <= maxBins/2, minBins <= bins <= maxBins; adjustSizeClassesEuler only with more than minBins/2 classes.',
               'revert is only offered after at least one createBackup (reverting the placeholder of a fresh object is a precondition breach).',
               'Third-moment preservation asserted at 1e-11 relative when the new grid covers every populated class; boundaries may move by <= 8 ulp on extension (linspace is re-evaluated).']
COMPONENTS = {'real': ['kawin.precipitation.PopulationBalance.PopulationBalanceModel (all methods)'], 'stub': ['distributions and growth fields are synthetic inputs']}


def plan(tier):
    return dict(runs=12000, batch=100, hard_timeout=300, soft_timeout=30) if tier == 'quick' else dict(runs=200000, batch=500, hard_timeout=900, soft_timeout=30)


def generate(rng, tier, index):
    return W.generate(rng, 'C08', tier, index)


def execute(rec):
    return W.execute(rec, 'C08')


shrink_candidates = W.shrink_candidates
