"""C18 - coupled strength and grain-growth models stay physical and aligned.

Two clocks: a precipitation world (host clock) with a StrengthModel and a GrainGrowthModel attached
before the first solve; GrainGrowthModel.updateCoupledModel runs a nested solve over the host step.
After every host step: strength histories have exactly one entry per host step, the grain clock
equals the host clock, over any number of solve calls and both iterators.
Stand-alone grain growth (log-normal / Hillert-like / bimodal distributions, Zener drag from 0 to
freezing): volume conservation, mean size monotone without pinning, drag never reverses/accelerates,
frozen structure.  Strength formulas are oracles at visited and generated (r, Ls) incl. zeros, r < ri.
"""
import math, copy
import numpy as np
from ksim import core
from ksim import precipworld as W
from kawin.precipitation.coupling import StrengthModel
from kawin.precipitation.coupling.GrainGrowth import GrainGrowthModel
from kawin.solver import SolverType

ID = 'C18'
LEVEL = 'exploration'
RULE = ('Runs are (a) coupled: stub precipitation world (1-2 phases, 1-4 solve calls, both iterators) with StrengthModel + GrainGrowthModel attached; alignment and clock invariants after every host step; '
        '(b) stand-alone GrainGrowthModel histories (3 distribution families, drag z from 0 to above the freezing level, 1-3 solve calls, Euler/RK4); '
        '(c) strength formula points: seeded parameter sets and (r, Ls) grids incl. 0 and r < ri, dislocation character 0/90 degrees, default or seeded superposition exponents (single phase / multi-phase / total); total strength compared with the documented superposition. '
        'Non-trivial = at least 10 host steps with precipitates (a), at least 10 grain-growth steps (b), at least 20 evaluated points (c); distinct = distinct record digest; '
        'signature = (kind, iterators, calls, drag regime / contributions enabled).')
ASSUMPTIONS = ['Grain clock compared with the host clock with tolerance 4 ulp x (steps+1) (the nested solve advances by differences of host times).',
               'Third moment of the grain distribution equals 1 to 1e-12 after every step; pre-normalisation drift below 1e-2 per step (counter reports the maximum seen); a dip of the mean size is allowed up to the renormalisation of the volume drift of that step; frozen structure compared at 1e-12 relative (normalisation multiplies by 1/M3).',
               'Mixed-dislocation formulas are compared with the edge/screw variants at 1% (the published constants are rounded).',
               'Strength formulas are evaluated at visited and generated (r, Ls): a sample, not a sweep.']
COMPONENTS = {'real': ['kawin.precipitation.coupling.Strength.StrengthModel', 'kawin.precipitation.coupling.GrainGrowth.GrainGrowthModel (nested DESolver run per host step)', 'kawin.GenericModel coupling slot', 'full KWN model in coupled runs'],
              'stub': ['analytic thermodynamics backend for the host precipitation model']}


def plan(tier):
    if tier == 'quick':
        return dict(runs=600, batch=4, hard_timeout=900, soft_timeout=300)
    return dict(runs=12000, batch=10, hard_timeout=2400, soft_timeout=600)


def gen_strength_params(rng):
    b = 0.25e-9 * rng.choice([1, 1.1])
    return {'G': 79.3e9 * rng.choice([0.5, 1, 1]), 'b': b, 'nu': rng.choice([1 / 3, 0.3]), 'ri': b * rng.choice([1, 2, 4]), 'theta': rng.choice([90, 90, 0, 45]), 'psi': 120,
            'eps': rng.choice([None, 0.001, 0.01]), 'Gp': rng.choice([None, 70e9, 60e9]), 'yAPB': rng.choice([None, 0.04, 0.2]), 'SFE': rng.choice([None, [0.1, 0.05]]),
            'gamma': rng.choice([None, 0.5, 0.1]), 'M': rng.choice([1, 2.24, 3.06]), 'sigma0': rng.choice([0, 10e6, 50e6]), 'ss': rng.choice([None, 100e6, 1e9]), 'Tmodel': rng.choice(['complex', 'simple']),
            'J': rng.choice(['complex', 'simple']),
            # superposition exponents [single phase, multi-phase same, multi-phase mixed, total]; None = defaults
            'exps': rng.choice([None, None, [rng.choice([1.0, 1.4, 1.8, 2.0]), rng.choice([1.0, 1.8, 2.0]), rng.choice([1.0, 1.4, 2.0]), rng.choice([1.0, 1.5, 1.8, 2.0])]])}


def make_strength(sp, elements=None):
    sm = StrengthModel()
    sm.setDislocationParameters(sp['G'], sp['b'], sp['nu'], sp['ri'], theta=sp['theta'], psi=sp['psi'])
    if sp.get('eps') is not None:
        sm.setCoherencyParameters(sp['eps'])
    if sp.get('Gp') is not None:
        sm.setModulusParameters(sp['Gp'])
    if sp.get('yAPB') is not None:
        sm.setAPBParameters(sp['yAPB'])
    if sp.get('SFE') is not None:
        sm.setSFEParameters(sp['SFE'][0], sp['SFE'][1], sp['b'])
    if sp.get('gamma') is not None:
        sm.setInterfacialParameters(sp['gamma'])
    sm.setTaylorFactor(sp['M'])
    sm.setBaseStrength(sp['sigma0'])
    if sp.get('ss') is not None and elements:
        sm.setSolidSolutionStrength({elements[0]: sp['ss']}, 1)
    sm.setTmodel(sp['Tmodel'])
    sm.setJfactor(sp['J'])
    if sp.get('exps'):
        sm.setStrengthSuperpositionExponent(*sp['exps'])
    return sm


def generate(rng, tier, index):
    k = index % 8
    if k in (0, 1, 2):
        rec = W.gen_run_record(rng, real_frac=0.0, nphase=rng.choice([1, 1, 2]), cap=150)
        rec['kind'] = 'coupled'
        rec['strength'] = gen_strength_params(rng)
        rec['grain'] = {'mu': 1e-5 * rng.choice([0.5, 1, 2]), 'sigma': rng.choice([0.2, 0.35]), 'n': 4000, 'seed': rng.randint(0, 10 ** 6), 'it': rng.choice(['euler', 'rk4']),
                        'M': 1e-14 * rng.choice([1e3, 1e6, 1e8]), 'K': rng.choice([4 / 3, 0.5]), 'm': rng.choice([1, 0.5])}
        return rec
    if k in (3, 4, 5):
        return {'kind': 'grain', 'dist': rng.choice(['lognormal', 'hillert', 'bimodal']), 'mu': 1e-5 * rng.choice([0.5, 1, 2]), 'sigma': rng.choice([0.15, 0.3, 0.5]), 'seed': rng.randint(0, 10 ** 6),
                'zf': rng.choice([0.0, 0.0, 0.05, 0.3, 0.9, 1.5, 5.0]), 'it': rng.choice(['euler', 'rk4']), 'ks': [rng.choice([5, 20, 60]) for _ in range(rng.choice([1, 2, 3]))],
                'bins': 2 * rng.randint(40, 75), 'M': 1e-14 * rng.choice([1, 10]), 'gbe': rng.choice([0.5, 0.3]), 'alpha': rng.choice([1, 0.5, 2, 3]), 'reset_after': rng.random() < 0.3}
    sp = gen_strength_params(rng)
    pts = []
    for _ in range(rng.randint(10, 25)):
        r = rng.choice([0.0, sp['ri'] * 0.2, sp['ri'] * 0.6, 10 ** rng.uniform(-9.5, -6.5)])
        Ls = rng.choice([0.0, 10 ** rng.uniform(-9, -5.5)])
        pts.append([r, Ls])
    return {'kind': 'strength', 'sp': sp, 'pts': pts, 'vals': [[rng.choice([0, 10 ** rng.uniform(5, 9)]), rng.choice([0, 10 ** rng.uniform(5, 9)])] for _ in range(6)]}


def prepare(tier, recs):
    pass


# ----------------------------------------------------------------------------- (a) coupled
class AlignMonitor:
    def __init__(self, sm, gg, F, cnt):
        self.sm, self.gg, self.F, self.cnt = sm, gg, F, cnt
        self.prev_gt = 0
        self.sig = set()

    def on_step(self, m):
        F = self.F
        n = m.pData.n
        self.cnt['steps'] += 1
        sm, gg = self.sm, self.gg
        if sm is not None:
            L = (None if sm.rss is None else len(sm.rss), None if sm.ls is None else len(sm.ls), None if sm.solidStrength is None else len(sm.solidStrength))
            if L != (n + 1, n + 1, n + 1):
                F.add('C18.strength_history_length', f'host step {n}: strength histories have lengths rss/ls/solid = {L}, host has {n + 1} recorded states', what='strength')
        if gg is not None:
            t_host = float(m.pData.time[n])
            t_g = float(gg.time[-1])
            tol = 4 * math.ulp(max(abs(t_host), 1e-300)) * (n + 1)
            if abs(t_g - t_host) > tol:
                F.add('C18.grain_clock', f'host step {n}: grain-growth clock {t_g!r}, host clock {t_host!r} (diff {t_g - t_host!r})', what='clock')
            gt = np.asarray(gg.time, dtype=float)
            if len(gt) > 1 and not np.all(np.diff(gt[self.prev_gt:]) > 0):
                F.add('C18.grain_time_increasing', f'host step {n}: grain-growth time history not strictly increasing', what='clock')
            self.prev_gt = max(0, len(gt) - 1)
            self.cnt['grain_steps'] = len(gt) - 1
            if len(gg.avgR) != len(gt):
                F.add('C18.grain_history_length', f'host step {n}: grain time history has {len(gt)} entries, mean-size history {len(gg.avgR)}', what='grain')
        if np.any(m.pData.precipitateDensity[n] > 0):
            self.cnt['steps_with_precipitates'] += 1


def load_grains(gg, mu, sigma, n, seed, dist='lognormal'):
    rs = np.random.RandomState(seed)
    if dist == 'lognormal':
        data = mu * np.exp(sigma * rs.randn(n))
    elif dist == 'hillert':
        u = rs.rand(n)
        data = mu * 1.8 * np.sqrt(u) * (1 - 0.3 * rs.rand(n))
    else:
        data = np.concatenate((mu * 0.6 * np.exp(0.15 * rs.randn(n // 2)), mu * 1.8 * np.exp(0.15 * rs.randn(n - n // 2))))
    gg.LoadDistribution(data)


def run_coupled(rec, F, cnt):
    cfg = rec['cfg']
    m, backend = W.build_model(cfg, keep_log=False)
    sm = make_strength(rec['strength'], list(cfg['elements']))
    g = rec['grain']
    gg = GrainGrowthModel(cMin=g['mu'] * 0.05, cMax=g['mu'] * 6, bins=100, minBins=80, maxBins=200, solverType=W.ITER[g['it']])
    gg.setGrainBoundaryMobility(g['M'])
    gg.setZenerParameters(g['m'], g['K'])
    load_grains(gg, g['mu'], g['sigma'], g['n'], g['seed'])
    m.addCouplingModel(sm)
    m.addCouplingModel(gg)
    mon = AlignMonitor(sm, gg, F, cnt)
    obs = W.Observer([mon], rec.get('cap', 150))
    m.addCouplingModel(obs)
    info = W.run_ops(m, rec['ops'], obs, F=None)
    if info['exception'] is not None:
        raise core.Inconclusive(f'exception {info["exception"][0]} at {info["exception"][2]}')
    # strength outputs over the history
    n = m.pData.n
    if sm.rss is not None and len(sm.rss) == n + 1 and len(sm.ls) == n + 1 and len(sm.solidStrength) == n + 1:
        with np.errstate(all='ignore'):
            ps = np.asarray(sm.precStrength(m), dtype=float)
            tot = np.asarray(sm.totalStrength(sm.solidStrength, ps), dtype=float)
        if not np.all(np.isfinite(ps)) or np.any(ps < 0):
            k = int(np.argmax(~np.isfinite(ps) | (ps < 0)))
            F.add('C18.strength_nonneg', f'coupled run: precipitate strength at host step {k} is {ps[k]!r} (rss={sm.rss[k]}, Ls={sm.ls[k]})', what='precStrength', r_below_ri=bool(np.any((sm.rss[k] > 0) & (sm.rss[k] < sm.ri))))
        elif not np.all(np.isfinite(tot)) or np.any(tot < ps * (1 - 1e-12)) or np.any(tot < sm.solidStrength * (1 - 1e-12)):
            F.add('C18.total_strength', 'coupled run: total strength not finite or below one of its parts', what='total')
        zero_prec = np.all(np.asarray(sm.rss) == 0, axis=1)
        if np.any(ps[zero_prec] != 0):
            F.add('C18.zero_without_precipitates', 'coupled run: non-zero precipitate strength at a step without precipitates', what='precStrength')
    gt = np.asarray(gg.time)
    if abs(float(np.sum(gg.pbm.PSD * gg.pbm.PSDsize ** 3)) - 1) > 1e-9:
        F.add('C18.grain_volume', f'coupled run: total grain volume {float(np.sum(gg.pbm.PSD * gg.pbm.PSDsize ** 3))!r} != 1', what='volume')
    return mon, m, gg


# ----------------------------------------------------------------------------- (b) stand-alone grain growth
class FakePrec:
    class PD:
        pass

    def __init__(self, z_target, K=4 / 3):
        # one phase with f=1 and radius r gives z = 1/(K r)
        self.phases = ['P']
        self.pData = FakePrec.PD()
        self.pData.n = 0
        if z_target > 0:
            self.pData.Ravg = np.array([[1.0 / (K * z_target)]])
        else:
            self.pData.Ravg = np.array([[0.0]])
        self.pData.volFrac = np.array([[1.0]])


def run_grain(rec, F, cnt, sig):
    mu = rec['mu']
    gg = GrainGrowthModel(cMin=mu * 0.05, cMax=mu * 6, bins=rec['bins'], minBins=2 * (rec['bins'] // 4), maxBins=2 * rec['bins'], solverType=W.ITER[rec['it']])
    gg.setGrainBoundaryMobility(rec['M'])
    gg.setGrainBoundaryEnergy(rec['gbe'])
    gg.setAlpha(rec['alpha'])
    load_grains(gg, mu, rec['sigma'], 6000, rec['seed'], rec['dist'])
    x0 = np.array(gg.pbm.PSD, copy=True)
    R = np.asarray(gg.pbm.PSDbounds, dtype=float)
    g_un = gg.grainGrowth(x0)
    # drag relative to the freezing level max|1/Rcr - 1/R| over populated classes
    pop = np.nonzero(x0 > 0)[0]
    Rcr = float(gg.Rcr(x0))
    zmax = float(np.max(np.abs(1 / Rcr - 1 / R[pop[0]:pop[-1] + 2])))
    z = rec['zf'] * zmax
    gg.computeZenerRadius(FakePrec(z))
    if abs(gg._z - z) > 1e-9 * max(z, 1e-300):
        F.add('C18.zener_drag_value', f'drag force from one phase with f=1, r=1/(K z) is {gg._z!r}, expected {z!r}', what='drag')
    sig.add('z0' if rec['zf'] == 0 else 'frozen' if rec['zf'] > 1 else 'drag')
    # taps
    drift = []
    origN = gg.Normalize

    def normalize_tap():
        drift.append(float(gg.pbm.ThirdMoment()))
        return origN()
    gg.Normalize = normalize_tap
    # unpinned growth law must conserve volume in the semi-discrete sense: with dR/dt = K (1/Rcr - 1/R) the volume rate is
    # proportional to sum N R^2 dR/dt = K (M2/Rcr - M1), so the critical radius implied by the returned field must make it vanish
    origG = gg.grainGrowth

    def gg_tap(x):
        out = np.asarray(origG(x), dtype=float)
        Kc = gg.alpha * gg.M * gg.gbe
        Rb = np.asarray(gg.pbm.PSDbounds, dtype=float)
        inv = out / Kc + 1.0 / Rb
        cnt['growth_law_checks'] = cnt.get('growth_law_checks', 0) + 1
        if np.max(np.abs(inv - inv[0])) > 1e-9 * abs(inv[0]):
            F.add('C18.growth_law', 'grain growth rate is not K (1/Rcr - 1/R) with one critical radius for all sizes', what='law')
        else:
            m0, m1, m2, m3 = (float(np.sum(np.asarray(x, dtype=float) * np.asarray(gg.pbm.PSDsize, dtype=float) ** k)) for k in range(4))
            if m1 > 0 and abs(m2 * inv[0] - m1) > 1e-9 * m1:
                F.add('C18.growth_law_conserves_volume', f'unpinned growth law does not conserve grain volume: sum N R^2 dR/dt is proportional to M2/Rcr - M1 = {m2 * inv[0] - m1!r} (M1 = {m1!r}, implied Rcr = {1 / inv[0]!r}, M2/M1 = {m2 / m1!r})', what='volume')
        return out
    gg.grainGrowth = gg_tap
    origC = gg.constrainedGrowth

    def cg_tap(growthRate, z=0):
        out = origC(growthRate, z)
        g = np.asarray(growthRate, dtype=float); c = np.asarray(out, dtype=float)
        cnt['constrained_calls'] += 1
        bad = (c != 0) & (np.sign(c) != np.sign(g))
        if np.any(bad):
            F.add('C18.drag_reverses', f'Zener drag reversed a boundary: unconstrained {g[np.argmax(bad)]!r}, constrained {c[np.argmax(bad)]!r} (z={z!r})', what='drag')
        if np.any(np.abs(c) > np.abs(g) * (1 + 1e-12)):
            j = int(np.argmax(np.abs(c) > np.abs(g) * (1 + 1e-12)))
            F.add('C18.drag_accelerates', f'Zener drag accelerated a boundary: unconstrained {g[j]!r}, constrained {c[j]!r} (z={z!r})', what='drag')
        # documented law: alpha M gbe ((1/Rcr - 1/R) -/+ z), zero between the two limits
        K_ = rec['alpha'] * rec['M'] * rec['gbe']
        want = np.where(g - K_ * z > 0, g - K_ * z, np.where(g + K_ * z < 0, g + K_ * z, 0.0))
        scale = max(float(np.max(np.abs(g))), 1e-300)
        if np.max(np.abs(c - want)) > 1e-12 * scale:
            j = int(np.argmax(np.abs(c - want)))
            F.add('C18.drag_law', f'constrained boundary velocity {c[j]!r} for unconstrained {g[j]!r}, drag z={z!r}, alpha={rec["alpha"]}: documented alpha*M*gbe*(curvature -/+ z) gives {want[j]!r}', what='drag')
        return out
    gg.constrainedGrowth = cg_tap
    dR = R[1] - R[0]
    gmax = float(np.max(np.abs(g_un[pop[0]:pop[-1] + 2])))
    dt0 = 0.4 * dR / gmax
    prev_avg = float(gg.avgR[0])
    steps_before = 0
    for ci, k in enumerate(rec['ks']):
        try:
            gg.solve(k * dt0, solverType=W.ITER[rec['it']])
        except Exception as e:  # noqa
            F.add('C18.exception.' + type(e).__name__, f'grain growth solve call {ci} raised {type(e).__name__}: {e}', what='grain')
            return gg
        sig.add(rec['it'])
    nsteps = len(gg.time) - 1
    cnt['grain_steps'] = nsteps
    # (the tap is installed after the distribution was loaded: drift[k] is the pre-normalisation volume of step k+1)
    cnt['max_volume_drift_1e-6'] = int(max([abs(d - 1) for d in drift] + [0.0]) * 1e6)
    for d in drift:
        if abs(d - 1) > 1e-2:
            F.add('C18.grain_volume_drift', f'total grain volume changed by {d - 1!r} in one step before normalisation', what='volume')
            break
    m3 = float(np.sum(gg.pbm.PSD * gg.pbm.PSDsize ** 3))
    if abs(m3 - 1) > 1e-12:
        F.add('C18.grain_volume', f'total grain volume after the run {m3!r} != 1', what='volume')
    gt = np.asarray(gg.time, dtype=float)
    if len(gt) > 1 and not np.all(np.diff(gt) > 0):
        F.add('C18.grain_time_increasing', 'grain-growth time history not strictly increasing', what='clock')
    if rec['zf'] == 0:
        a = np.asarray(gg.avgR, dtype=float)
        # the explicit scheme lets the total volume drift slightly per step and the model renormalises it ("numerical errors will lead
        # to small changes in volume"): a renormalisation by 1/M3 with M3 < 1 lowers cbrt(M3/M0) by (1-M3)/3, which is not grain shrinkage
        dr = np.array((drift + [1.0] * len(a))[:len(a)], dtype=float)
        allow = np.maximum(0.0, 1.0 - dr[:len(a) - 1]) / 3 * 1.05 + 1e-9
        dec = (a[:-1] - a[1:]) / a[:-1]
        bad = np.nonzero(dec > allow[:len(dec)])[0]
        if len(bad):
            F.add('C18.mean_size_decreases', f'no pinning: mean grain size fell from {a[bad[0]]!r} to {a[bad[0] + 1]!r} at step {bad[0] + 1} (relative {dec[bad[0]]:.2e}, volume renormalisation explains {allow[bad[0]]:.2e})', what='mean')
    if rec.get('reset_after'):
        # reuse of the model object: reset() puts the loaded (normalised) distribution back; total grain volume is 1 before and after
        # the next solve call, as on the first run
        gg.reset()
        sig.add('reset')
        m3r = float(np.sum(np.asarray(gg.pbm.PSD, dtype=float) * np.asarray(gg.pbm.PSDsize, dtype=float) ** 3))
        if abs(m3r - 1) > 1e-12:
            F.add('C18.grain_volume', f'after reset() the total grain volume is {m3r!r} != 1 (the loaded distribution had volume 1)', what='volume_after_reset')
        elif len(gg.pbm.PSD) == len(x0) and not np.array_equal(np.asarray(gg.pbm.PSD), x0):
            F.add('C18.reset_restores', 'reset() did not restore the loaded grain size distribution', what='reset')
        else:
            try:
                gg.solve(rec['ks'][0] * dt0, solverType=W.ITER[rec['it']])
                m3s = float(np.sum(gg.pbm.PSD * gg.pbm.PSDsize ** 3))
                if abs(m3s - 1) > 1e-12:
                    F.add('C18.grain_volume', f'total grain volume after the run that followed reset() {m3s!r} != 1', what='volume_after_reset')
            except Exception as e:  # noqa
                F.add('C18.exception.' + type(e).__name__, f'grain growth solve after reset() raised {type(e).__name__}: {e}', what='grain')
        return gg
    if rec['zf'] > 1.0 and gg.pbm.bins == len(x0):
        if not np.allclose(np.asarray(gg.pbm.PSD), x0, rtol=1e-12, atol=0):
            F.add('C18.not_frozen', f'drag {rec["zf"]} x the freezing level but the grain distribution changed (max rel change {float(np.max(np.abs(gg.pbm.PSD - x0) / np.maximum(x0, 1e-300)))!r})', what='frozen')
    return gg


# ----------------------------------------------------------------------------- (c) strength formulas
def run_strength(rec, F, cnt):
    sp = rec['sp']
    sm = make_strength(sp)
    r = np.array([p[0] for p in rec['pts']], dtype=float)
    Ls = np.array([p[1] for p in rec['pts']], dtype=float)
    with np.errstate(all='ignore'):
        weak, strong, oro, labels = sm.getStrengthContributions(r.copy(), Ls.copy())
        comb, cmp_, parts = sm.combineStrengthContributions(np.array(weak, copy=True), np.array(strong, copy=True), np.array(oro, copy=True), returnComparison=True)
    cnt['points'] += len(r)
    for name, arr in (('weak', weak), ('strong', strong), ('orowan', oro), ('combined', comb)):
        a = np.asarray(arr, dtype=float)
        if a.size and (not np.all(np.isfinite(a)) or np.any(a < 0)):
            idx = np.argwhere(~np.isfinite(a) | (a < 0))[0]
            j = int(idx[-1])
            F.add('C18.contribution_nonneg', f'{name} contribution at r={r[j]!r}, Ls={Ls[j]!r} is {a[tuple(idx)]!r} (ri={sm.ri!r})', which=name, r_below_ri=bool(0 < r[j] < sm.ri))
    # min rule
    tw, ts, to = [np.asarray(p, dtype=float) for p in parts]
    want = np.minimum(np.minimum(tw, ts), to)
    if not np.allclose(np.asarray(comb, dtype=float), want, rtol=1e-12, atol=0, equal_nan=True):
        F.add('C18.min_rule', 'precipitate strength is not the Taylor factor times the smallest of the weak, strong and Orowan branches', which='combined')
    # zero without precipitates
    none = (r == 0)
    if np.any(np.asarray(comb)[none] != 0):
        F.add('C18.zero_without_precipitates', f'precipitate strength {np.asarray(comb)[none][0]!r} at r=0', which='combined')
    # total strength: at least each part, non-decreasing in each
    for (a, b) in rec['vals']:
        with np.errstate(all='ignore'):
            t = float(sm.totalStrength(np.array([a]), np.array([b]))[0])
            t2 = float(sm.totalStrength(np.array([a * 1.5 + 1e5]), np.array([b]))[0])
            t3 = float(sm.totalStrength(np.array([a]), np.array([b * 1.5 + 1e5]))[0])
        cnt['points'] += 1
        if not math.isfinite(t) or t < max(a, b, sm.sigma0) * (1 - 1e-12):
            F.add('C18.total_strength', f'total strength {t!r} for solid-solution {a!r}, precipitate {b!r}, base {sm.sigma0!r} is not finite or below one of its parts', which='total')
        elif t2 < t * (1 - 1e-12) or t3 < t * (1 - 1e-12):
            F.add('C18.total_strength', f'total strength decreases when a part increases ({t!r} -> {t2!r} / {t3!r})', which='total_monotone')
        else:
            # documented superposition: (sigma0^n + ss^n + prec^n)^(1/n) with the total-strength exponent
            nexp = (sp.get('exps') or [1.8, 1.8, 1.4, 1.8])[3]
            want_t = (sm.sigma0 ** nexp + a ** nexp + b ** nexp) ** (1 / nexp)
            if abs(t - want_t) > 1e-9 * max(want_t, 1.0):
                F.add('C18.total_strength', f'total strength {t!r} is not the superposition {want_t!r} of base {sm.sigma0!r}, solid-solution {a!r} and precipitate {b!r} with exponent {nexp}', which='total_value')
    # mixed formulas reduce to edge / screw variants at 90 / 0 degrees (positive r, Ls only)
    ok = (r > 2 * sm.ri) & (Ls > 10 * sm.ri)
    if np.any(ok) and sp['theta'] in (0, 90) and sp['J'] == 'simple':
        rr, ll = r[ok], Ls[ok]
        r0w = ll / np.sqrt(np.cos(sm.psi / 2)); r0s = ll
        suffix = 'Edge' if sp['theta'] == 90 else 'Screw'
        pairs = []
        if sp.get('eps') is not None:
            pairs += [('coherencyWeak', r0w), ('coherencyStrong', r0s)]
        if sp.get('Gp') is not None:
            pairs += [('modulusWeak', r0w)]
        if sp.get('yAPB') is not None:
            pairs += [('APBweak', r0w), ('APBstrong', r0s)]
        if sp.get('gamma') is not None:
            pairs += [('interfacialWeak', r0w)]
        for name, r0 in pairs:
            with np.errstate(all='ignore'):
                a = np.asarray(getattr(sm, name)(rr, ll, r0), dtype=float)
                b = np.asarray(getattr(sm, name + suffix)(rr, ll, r0), dtype=float)
            good = np.isfinite(a) & np.isfinite(b) & (np.abs(b) > 0)
            cnt['points'] += int(np.sum(good))
            if np.any(np.abs(a[good] - b[good]) > 1e-2 * np.abs(b[good])):
                j = int(np.argmax(np.abs(a[good] - b[good]) / np.abs(b[good])))
                F.add('C18.edge_screw_limit', f'{name} at theta={sp["theta"]} gives {a[good][j]!r}, {name}{suffix} gives {b[good][j]!r}', which=name)


def execute(rec):
    F = core.Failures(cap=16)
    D = core.Digest()
    kind = rec['kind']
    if kind == 'coupled':
        cnt = {k: 0 for k in ('steps', 'steps_with_precipitates', 'grain_steps')}
        mon, m, gg = run_coupled(rec, F, cnt)
        D.add(*[float(t) for t in m.pData.time], np.asarray(gg.pbm.PSD))
        sig = f"coupled:{len(rec['cfg']['phases'])}:{len(rec['ops'])}:{rec['grain']['it']}:" + ','.join(sorted(set(o['it'] for o in rec['ops'])))
        return core.result(F, sig=sig, nontrivial=cnt['steps_with_precipitates'] >= 10, counters=cnt, digest=D.hex())
    if kind == 'grain':
        cnt = {'grain_steps': 0, 'constrained_calls': 0}
        sig = {rec['dist']}
        gg = run_grain(rec, F, cnt, sig)
        D.add(np.asarray(gg.time), np.asarray(gg.pbm.PSD))
        return core.result(F, sig='grain:' + ','.join(sorted(sig)) + f":{len(rec['ks'])}", nontrivial=cnt['grain_steps'] >= 10, counters=cnt, digest=D.hex())
    cnt = {'points': 0}
    run_strength(rec, F, cnt)
    en = ','.join(k for k in ('eps', 'Gp', 'yAPB', 'SFE', 'gamma') if rec['sp'].get(k) is not None)
    return core.result(F, sig=f"strength:{rec['sp']['theta']}:{en}", nontrivial=cnt['points'] >= 20, counters=cnt, digest='')


def shrink_candidates(rec):
    if rec['kind'] == 'coupled':
        for r in W.shrink_run_record(rec):
            yield r
    elif rec['kind'] == 'grain':
        if len(rec['ks']) > 1:
            for c in core.ddmin_candidates(rec['ks']):
                if c:
                    r = copy.deepcopy(rec); r['ks'] = c; yield r
        for i, k in enumerate(rec['ks']):
            if k > 2:
                r = copy.deepcopy(rec); r['ks'][i] = k // 2; yield r
        if rec['it'] != 'euler':
            r = copy.deepcopy(rec); r['it'] = 'euler'; yield r
        if rec['dist'] != 'lognormal':
            r = copy.deepcopy(rec); r['dist'] = 'lognormal'; yield r
    else:
        for c in core.ddmin_candidates(rec['pts']):
            if c:
                r = copy.deepcopy(rec); r['pts'] = c; yield r
        for c in core.ddmin_candidates(rec['vals']):
            r = copy.deepcopy(rec); r['vals'] = c; yield r
        for k in ('eps', 'Gp', 'yAPB', 'SFE', 'gamma', 'ss', 'exps'):
            if rec['sp'].get(k) is not None:
                r = copy.deepcopy(rec); r['sp'][k] = None; yield r
