"""C11 - results are equivariant under reordering of elements and of phases.

Differential simulation: two or more worlds built from one record that differ only in the order of
a list.
  phases   : multi-phase precipitation (stub ternary 2-3 phases; real Al-Mg-Si in the thorough tier),
             every permutation of `phases`; same number of steps, same time grid, per-phase histories
             permuted.  Comparison is local: discrepancy d_n <= 1e-6 throughout a bounded run AND
             never jumps (d_n > 1e-9 right after d_{n-1} < 1e-12): a jump is an order-dependent decision,
             gradual growth is rounding.
  elements : real Ni-Cr-Al thermodynamics built with either order of the two solutes; driving force
             and precipitate composition, interdiffusivity (P D P^T), tracer diffusivity, curvature
             outputs and interfacial compositions at seeded (x,T) must be the permuted images (1e-8).
  diffusion: paired SinglePhase / Homogenization runs with permuted element lists (see ksim.diffworld).
"""
import math, copy, itertools
import numpy as np
from ksim import core
from ksim import precipworld as W

ID = 'C11'
LEVEL = 'exploration'
RULE = ('Runs are (a) phase permutations: one stub ternary configuration with 2-3 precipitate phases of different stability/energy/site, all constraints incl. the volume-change limit active, '
        'executed once per permutation of the phase list (2 or 6 worlds) and compared step by step; (b) element permutations on the real Ni-Cr-Al database: 4-8 seeded (x,T) points, six query kinds, '
        'two solute orders; (c) paired diffusion runs with permuted element lists (synthetic single-phase, real Ni-Cr-Al single-phase, real Fe-Cr-Ni two-phase homogenization); '
        '(d) the homogenization mobility provider on Fe-Cr-Ni in both solute orders, 2-3 passes over the same points with one composition cache per order. Non-trivial = at least 10 compared steps with every phase nucleated (a), at least 10 compared query results (b), '
        'at least 10 compared steps (c); distinct = distinct record digest; signature = (kind, phases, iterator, constraints active).')
ASSUMPTIONS = ['Summation order changes rounding and step-size selection amplifies it: equality is judged by the local-jump rule (tolerance 1e-6 over <= 250 steps, jump threshold 1e-9 after 1e-12).',
               'Element-order comparisons use cold caches (clearCache + removeCache=True) and 1e-8 relative / 1e-10 absolute tolerance.']
COMPONENTS = {'real': ['kawin.precipitation.* incl. Constraints.computeDTfrom*', 'kawin.thermo.MulticomponentThermodynamics + pycalphad (element order)', 'kawin.diffusion.* (paired diffusion runs)'],
              'stub': ['analytic multiphase backend in the phase-order runs (keyed by phase name, order free by construction)']}

PER_PHASE = ['drivingForce', 'impingement', 'Gcrit', 'Rcrit', 'nucRate', 'precipitateDensity', 'Rnuc', 'Ravg', 'ARavg', 'volFrac']


def plan(tier):
    if tier == 'quick':
        return dict(runs=150, batch=2, hard_timeout=900, soft_timeout=400)
    return dict(runs=3000, batch=4, hard_timeout=2400, soft_timeout=900)


def generate(rng, tier, index):
    k = index % 10
    if k == 9:
        pts = []
        for _ in range(rng.randint(4, 8)):
            pts.append({'x': [round(rng.uniform(0.02, 0.16), 4), round(rng.uniform(0.02, 0.16), 4)], 'T': rng.choice([973.0, 1073.0, 1173.0, round(rng.uniform(900, 1250), 1)])})
        return {'kind': 'elements_thermo', 'points': pts}
    if k == 6 and index % 20 == 6:
        # mobility provider of the homogenization model on the real Fe-Cr-Ni database in both solute orders: several passes over the
        # same points with one composition cache per order (later passes are cache hits)
        pts = [{'x': [round(rng.uniform(0.1, 0.35), 4), round(rng.uniform(0.02, 0.15), 4)], 'T': rng.choice([1073.0, 1173.0, 1273.0])} for _ in range(rng.randint(2, 5))]
        return {'kind': 'elements_mobility', 'points': pts, 'passes': rng.choice([2, 3]), 'cache': rng.random() < 0.85}
    if k == 7 and index % 20 == 7:
        # two-phase homogenization run on the real Fe-Cr-Ni database, solutes listed CR,NI vs NI,CR
        from ksim import diffworld as DW
        cfg = {'model': 'hom', 'provider': 'real_fecrni', 'all_elements': ['FE', 'CR', 'NI'], 'phases': ['FCC_A1', 'BCC_A2'], 'N': rng.randint(5, 8), 'L': 1e-4,
               'profiles': {'CR': {'kind': rng.choice(['linear', 'step']), 'a': round(rng.uniform(0.12, 0.2), 4), 'b': round(rng.uniform(0.25, 0.35), 4), 'pos': 0.5},
                            'NI': {'kind': rng.choice(['linear', 'step']), 'a': round(rng.uniform(0.08, 0.14), 4), 'b': round(rng.uniform(0.03, 0.07), 4), 'pos': 0.5}},
               'bcs': {}, 'T': {'kind': 'const', 'T': rng.choice([1173.0, 1273.0])}, 'T_via': 'setter', 'record': True,
               'hom': {'function': rng.choice(['wiener upper', 'wiener lower', 'lab']), 'eps': 0.05}}
        return {'kind': 'elements_diffusion', 'cfg': cfg, 'ops': [{'op': 'solve', 'k': rng.choice([3, 5]), 'it': rng.choice(['euler', 'rk4'])} for _ in range(rng.choice([1, 2]))], 'perm': [1, 0]}
    if k in (6, 7):
        from ksim import diffworld as DW
        real = rng.random() < 0.08
        cfg = DW.gen_config(rng, model='single', real_ok=False)
        while len(cfg['all_elements']) < 3:
            cfg = DW.gen_config(rng, model='single', real_ok=False)
        cfg['record'] = True
        if real:
            cfg.update({'provider': 'real_nicral_fcc', 'all_elements': ['NI', 'CR', 'AL'], 'phases': ['FCC_A1'], 'N': rng.randint(5, 9), 'bcs': {}, 'T': {'kind': 'const', 'T': 1273.0}})
            cfg.pop('synth', None)
            cfg['profiles'] = {'CR': {'kind': 'linear', 'a': 0.06, 'b': 0.12, 'pos': 0.5}, 'AL': {'kind': 'step', 'a': 0.11, 'b': 0.05, 'pos': 0.5}}
        n = len(cfg['all_elements']) - 1
        perm = list(range(n))
        while perm == list(range(n)):
            rng.shuffle(perm)
        if real:
            perm = [1, 0]
        return {'kind': 'elements_diffusion', 'cfg': cfg, 'ops': DW.gen_ops(rng, real=real), 'perm': perm}
    if k == 8 and tier == 'thorough' and rng.random() < 0.3:
        cfg = W.real_config('real_almgsi')
        ops = [{'op': 'solve', 'T': 100.0, 'it': 'euler', 'minf': 2e-2, 'maxf': 1.0}, {'op': 'solve', 'T': 1000.0, 'it': rng.choice(['euler', 'rk4']), 'minf': 2e-2, 'maxf': 1.0}]
        return {'kind': 'phases', 'cfg': cfg, 'ops': ops, 'cap': 100}
    nph = rng.choice([2, 2, 3])
    # binary (lookup-table branch of the growth rate) and ternary (curvature-factor branch) worlds
    cfg = W.gen_stub_config(rng, nel=rng.choice([2, 2, 1]), nphase=nph)
    if len(cfg['elements']) == 1:
        # a small grid, so that a phase that is not listed first outgrows it and classes are appended within the run
        cfg['pbm'].update({'cMax': 2e-9, 'bins': 30, 'minBins': 20, 'maxBins': 200})
    if rng.random() < 0.08:
        # one phase is a needle/plate whose aspect ratio is calculated from its elastic strain energy (per-phase aspect-ratio tables)
        ph = rng.choice(cfg['phases'])
        cfg['phase_params'][ph].update({'site': 'bulk', 'shape': rng.choice(['needle', 'plate']), 'ar': 1.0,
                                        'strain': {'eig': [6.67e-3, 6.67e-3, rng.choice([2.86e-2, 1.5e-2])], 'G': 57.1e9, 'nu': 0.33, 'calcAR': True}})
    # every step-size constraint enabled, volume-change limit tight enough to bind
    cfg['constraints'] = {'maxVolumeChange': rng.choice([1e-3, 1e-4, 2e-5, 5e-6])}
    if rng.random() < 0.3:
        cfg['constraints']['maxRcritChange'] = 0.005
    ops = W.gen_solve_ops(rng, floor_bound_prob=0.05)
    strained = any(cfg['phase_params'][p].get('strain') for p in cfg['phases'])
    if strained and len(cfg['phases']) > 2:
        # (the equilibrium aspect-ratio search is expensive: two phases = two worlds instead of six)
        drop = [p for p in cfg['phases'] if not cfg['phase_params'][p].get('strain')][-1]
        cfg['phases'] = [p for p in cfg['phases'] if p != drop]
        cfg['thermo_phase_order'] = [p for p in cfg['thermo_phase_order'] if p != drop]
    return {'kind': 'phases', 'cfg': cfg, 'ops': ops, 'cap': 70 if strained else 160}


_ELEM = {}


def prepare(tier, recs):
    W.preload([r['cfg']['backend'] for r in recs if 'cfg' in r and 'backend' in r['cfg']])
    if any(r['kind'] == 'elements_diffusion' and r['cfg']['provider'] != 'synth' for r in recs):
        from ksim import diffworld as DW
        DW.preload(['real_nicral_fcc', 'real_nicral_fcc_perm'])
    if any(r['kind'] == 'elements_mobility' or (r['kind'] == 'elements_diffusion' and r['cfg']['provider'] == 'real_fecrni') for r in recs):
        from ksim import diffworld as DW
        DW.preload(['real_fecrni', 'real_fecrni_perm'])
    if any(r['kind'] == 'elements_thermo' for r in recs) and not _ELEM:
        from kawin.thermo import MulticomponentThermodynamics
        from kawin.tests import datasets as ds
        for order in (('AL', 'CR'), ('CR', 'AL')):
            t = MulticomponentThermodynamics(ds.NICRAL_TDB, ['NI'] + list(order), ['FCC_A1', 'FCC_L12'], drivingForceMethod='tangent')
            t.setDFSamplingDensity(2000)
            t.setEQSamplingDensity(500)
            _ELEM[order] = t


class Recorder:
    def __init__(self):
        self.steps = 0

    def on_step(self, m):
        self.steps += 1


def run_perm(rec, order):
    cfg = copy.deepcopy(rec['cfg'])
    cfg['phases'] = list(order)
    if cfg['backend'].startswith('real_'):
        W.real_backend(cfg['backend']).clearCache()
    m, backend = W.build_model(cfg, keep_log=False)
    r = Recorder()
    obs = W.Observer([r], rec.get('cap', 160))
    m.addCouplingModel(obs)
    info = W.run_ops(m, rec['ops'], obs, F=None)
    if info['exception'] is not None:
        raise core.Inconclusive(f'exception {info["exception"][0]} at {info["exception"][2]}')
    return m


def rel(a, b, floor=None):
    """largest relative difference; `floor` (same shape) is a lower bound of the scale: a quantity that has decayed far below its own
    historical maximum (e.g. the history-integrated solute content of a dissolved phase, a difference of two equal numbers) carries the
    ABSOLUTE round-off of that maximum"""
    a = np.asarray(a, dtype=float); b = np.asarray(b, dtype=float)
    s = np.maximum(np.abs(a), np.abs(b))
    if floor is not None:
        s = np.maximum(s, floor)
    with np.errstate(invalid='ignore', divide='ignore'):
        d = np.where(s > 0, np.abs(a - b) / s, 0.0)
    return float(np.max(d)) if d.size else 0.0


def compare_phase_runs(base_order, mb, order, mo, F, cnt):
    idx = [list(order).index(p) for p in base_order]       # position in `order` of each base phase
    nb, no = mb.pData.n, mo.pData.n
    ctx = dict(what='phases')
    if nb != no:
        F.add('C11.phase_order_time_grid', f'phase order {list(base_order)} took {nb} steps, order {list(order)} took {no} steps', **ctx)
    n = min(nb, no)
    prev = 0.0
    worst = 0.0
    runmax = {}
    for k in range(n + 1):
        d = rel(mb.pData.time[k], mo.pData.time[k])
        field = 'time'
        for name in ('temperature', 'composition'):
            dd = rel(getattr(mb.pData, name)[k], getattr(mo.pData, name)[k])
            if dd > d:
                d, field = dd, name
        for name in PER_PHASE:
            dd = rel(getattr(mb.pData, name)[k], np.asarray(getattr(mo.pData, name)[k])[idx])
            if dd > d:
                d, field = dd, name
        for name in ('fconc', 'xEqAlpha', 'xEqBeta'):
            av = np.asarray(getattr(mb.pData, name)[k], dtype=float)
            runmax[name] = np.maximum(runmax.get(name, 0.0), np.abs(av))
            dd = rel(av, np.asarray(getattr(mo.pData, name)[k])[idx], floor=(1e-4 * runmax[name] if name == 'fconc' else None))
            if dd > d:
                d, field = dd, name
        cnt['compared_steps'] += 1
        worst = max(worst, d)
        if d > 1e-9 and prev < 1e-12:
            F.add('C11.phase_order_jump', f'orders {list(base_order)} vs {list(order)}: discrepancy jumps from {prev:.2e} to {d:.2e} at step {k} in {field} '
                  f'(t={mb.pData.time[k]!r} vs {mo.pData.time[k]!r}): an order-dependent decision', **ctx)
            return worst
        if d > 1e-6:
            F.add('C11.phase_order_drift', f'orders {list(base_order)} vs {list(order)}: discrepancy {d:.2e} in {field} at step {k}', **ctx)
            return worst
        prev = d
    return worst


def perm_close(a, b, what, F, ctx, rtol=1e-8, atol=1e-10):
    if a is None or b is None:
        if (a is None) != (b is None):
            F.add('C11.element_availability', f'{what}: one order returned no result, the other did', **ctx)
        return
    a = np.asarray(a, dtype=float); b = np.asarray(b, dtype=float)
    if a.shape != b.shape:
        F.add('C11.element_order', f'{what}: shapes {a.shape} vs {b.shape}', **ctx)
        return
    if not np.all(np.abs(a - b) <= atol + rtol * np.maximum(np.abs(a), np.abs(b))):
        F.add('C11.element_order', f'{what}: {a.tolist()} is not the permuted image of {b.tolist()}', **ctx)


def elements_thermo(rec, F, cnt):
    tA, tB = _ELEM[('AL', 'CR')], _ELEM[('CR', 'AL')]
    for pt in rec['points']:
        x = np.array(pt['x'], dtype=float)
        xs = x[::-1].copy()
        T = pt['T']
        for t in (tA, tB):
            t.clearCache()
        ctx = dict(what='elements')
        dgA, cA = tA.getDrivingForce(x, T, precPhase='FCC_L12', removeCache=True)
        dgB, cB = tB.getDrivingForce(xs, T, precPhase='FCC_L12', removeCache=True)
        n_before = len(F.items)
        if dgA is None or dgB is None:
            perm_close(dgA, dgB, f'driving force at x={pt["x"]} T={T}', F, dict(ctx, q='driving_force'))
        else:
            under = bool(float(np.squeeze(dgA)) < 0 and float(np.squeeze(dgB)) < 0)
            n_before = len(F.items)
            perm_close(np.squeeze(dgA), np.squeeze(dgB), f'driving force at x={pt["x"]} T={T}', F, dict(ctx, q='driving_force', undersaturated=under), rtol=1e-7, atol=1e-4)
            if len(F.items) == n_before:
                perm_close(np.squeeze(cA), np.squeeze(cB)[::-1], f'precipitate composition from the driving force at x={pt["x"]} T={T}', F, dict(ctx, q='driving_force_composition', undersaturated=under), rtol=1e-6, atol=1e-8)
        cnt['compared'] += 2
        DA = tA.getInterdiffusivity(x, T, removeCache=True)
        DB = tB.getInterdiffusivity(xs, T, removeCache=True)
        perm_close(np.squeeze(DA), np.squeeze(DB)[::-1, ::-1], f'interdiffusivity at x={pt["x"]} T={T}', F, ctx, atol=0)
        trA = np.squeeze(tA.getTracerDiffusivity(x, T, removeCache=True))
        trB = np.squeeze(tB.getTracerDiffusivity(xs, T, removeCache=True))
        perm_close(trA, np.array([trB[0], trB[2], trB[1]]), f'tracer diffusivity at x={pt["x"]} T={T}', F, ctx, atol=0)
        cnt['compared'] += 2
        if dgA is not None and dgB is not None and len(F.items) > n_before:
            # the two orders already disagree on the driving force (and hence on the search direction the curvature factor is built from):
            # the curvature comparison at this point would only restate that
            cnt['skipped_dependent'] = cnt.get('skipped_dependent', 0) + 1
            continue
        cuA = tA.curvatureFactor(x, T, precPhase='FCC_L12', removeCache=True, computeSearchDir=True)
        cuB = tB.curvatureFactor(xs, T, precPhase='FCC_L12', removeCache=True, computeSearchDir=True)
        if cuA is None or cuB is None:
            perm_close(None if cuA is None else 1, None if cuB is None else 1, f'curvature factor at x={pt["x"]} T={T}', F, dict(ctx, q='curvature_two_phase_search'))
        else:
            scale = float(np.max(np.abs(cuA.dc)))
            perm_close(cuA.dc, np.asarray(cuB.dc)[::-1], f'curvature dc at x={pt["x"]} T={T}', F, ctx, rtol=1e-6, atol=1e-9 * scale)
            perm_close(cuA.mc, cuB.mc, f'curvature mc at x={pt["x"]} T={T}', F, ctx, rtol=1e-6, atol=0)
            perm_close(cuA.beta, cuB.beta, f'impingement beta at x={pt["x"]} T={T}', F, ctx, rtol=1e-6, atol=0)
            perm_close(cuA.gba, np.asarray(cuB.gba)[::-1, ::-1], f'curvature gba at x={pt["x"]} T={T}', F, ctx, rtol=1e-5, atol=1e-7)
            perm_close(cuA.c_eq_alpha, np.asarray(cuB.c_eq_alpha)[::-1], f'equilibrium matrix composition at x={pt["x"]} T={T}', F, ctx, rtol=1e-7, atol=1e-9)
            perm_close(cuA.c_eq_beta, np.asarray(cuB.c_eq_beta)[::-1], f'equilibrium precipitate composition at x={pt["x"]} T={T}', F, ctx, rtol=1e-7, atol=1e-9)
            cnt['compared'] += 6


def elements_mobility(rec, F, cnt):
    from kawin.diffusion.DiffusionParameters import computeMobility, HashTable
    from ksim import diffworld as DW
    tA, tB = DW.real_therm('real_fecrni'), DW.real_therm('real_fecrni_perm')
    for t in (tA, tB):
        t.clearCache()
    hA, hB = (HashTable(), HashTable()) if rec.get('cache', True) else (None, None)
    ctx = dict(what='mobility')
    for k in range(rec['passes']):
        for pt in rec['points']:
            x = np.array(pt['x'], dtype=float)
            a = computeMobility(tA, np.array([x]), np.array([pt['T']]), hA)
            b = computeMobility(tB, np.array([x[::-1]]), np.array([pt['T']]), hB)
            where = f'pass {k} at x(CR,NI)={pt["x"]} T={pt["T"]}'
            if list(a.phases[0]) != list(b.phases[0]):
                F.add('C11.element_order', f'{where}: stable phases {list(a.phases[0])} vs {list(b.phases[0])}', **ctx)
                continue
            perm_close(a.phase_fractions[0], b.phase_fractions[0], f'phase fractions, {where}', F, ctx, rtol=1e-7, atol=1e-9)
            # columns: FE, CR, NI in order A and FE, NI, CR in order B
            perm_close(np.asarray(a.mobility[0])[:, [0, 2, 1]], b.mobility[0], f'per-phase mobilities, {where}', F, ctx, rtol=1e-6, atol=0)
            perm_close(np.asarray(a.chemical_potentials[0])[[0, 2, 1]], b.chemical_potentials[0], f'chemical potentials, {where}', F, ctx, rtol=1e-7, atol=1e-4)
            cnt['compared'] += 3
            if k > 0:
                cnt['cache_hit_passes'] = cnt.get('cache_hit_passes', 0) + 1


def execute(rec):
    F = core.Failures()
    D = core.Digest()
    if rec['kind'] == 'elements_mobility':
        cnt = {'compared': 0}
        elements_mobility(rec, F, cnt)
        return core.result(F, sig='elements_mobility:' + ('cache' if rec.get('cache', True) else 'nocache'), nontrivial=cnt['compared'] >= 6, counters=cnt, digest='')
    if rec['kind'] == 'elements_thermo':
        cnt = {'compared': 0}
        elements_thermo(rec, F, cnt)
        return core.result(F, sig='elements_thermo', nontrivial=cnt['compared'] >= 10, counters=cnt, digest='')
    if rec['kind'] == 'elements_diffusion':
        from ksim import diffworld
        return diffworld.execute_permuted_pair(rec)
    cnt = {k: 0 for k in ('compared_steps', 'worlds', 'steps', 'runs_real', 'runs_stub')}
    cfg = rec['cfg']
    cnt['runs_real' if cfg['backend'].startswith('real_') else 'runs_stub'] = 1
    base = tuple(cfg['phases'])
    mb = run_perm(rec, base)
    cnt['worlds'] = 1
    cnt['steps'] = mb.pData.n
    worst = 0.0
    for order in itertools.permutations(base):
        if order == base:
            continue
        mo = run_perm(rec, order)
        cnt['worlds'] += 1
        worst = max(worst, compare_phase_runs(base, mb, order, mo, F, cnt))
    D.add(*[float(t) for t in mb.pData.time], np.asarray(mb.pData.volFrac, dtype=float))
    allnuc = bool(np.all(np.max(np.asarray(mb.pData.precipitateDensity), axis=0) > 0))
    sig = f"phases:{cfg['backend']}:{len(base)}:{'allnuc' if allnuc else 'partial'}:" + ','.join(sorted(set(o['it'] for o in rec['ops'])))
    cnt['max_discrepancy_1e-18'] = int(worst * 1e18)
    return core.result(F, sig=sig, nontrivial=mb.pData.n >= 10 and allnuc, counters=cnt, digest=D.hex())


def shrink_candidates(rec):
    if rec['kind'] == 'elements_mobility':
        for c in core.ddmin_candidates(rec['points']):
            if c:
                r = copy.deepcopy(rec); r['points'] = c; yield r
        if rec['passes'] > 2:
            r = copy.deepcopy(rec); r['passes'] = 2; yield r
        return
    if rec['kind'] == 'elements_thermo':
        for c in core.ddmin_candidates(rec['points']):
            if c:
                r = copy.deepcopy(rec); r['points'] = c; yield r
        return
    if rec['kind'] == 'elements_diffusion':
        from ksim import diffworld
        for r in diffworld.shrink_candidates(rec):
            yield r
        return
    for r in W.shrink_run_record(rec):
        if len(r['cfg']['phases']) >= 2:
            yield r
