"""Analytic thermodynamics backends (stubs) implementing exactly the methods the kawin
precipitation model calls on its `therm` object, from a closed-form dilute-solution model,
plus the fault-injecting proxy that wraps a stub or a real kawin.thermo object.

Dilute model: solvus x_eq,e(T) per precipitate phase, compound composition x_beta,e,
    dG(x,T) = R T sum_e x_beta,e ln(x_e / x_eq,e(T))           [J/mol, >0 when supersaturated]
Binary: x_alpha(g) = x_eq exp(g / (R T x_beta)) is the exact inverse of dG, so the Gibbs-Thomson
relations of C12 hold in the stub by construction.  Multicomponent growth output is produced by
kawin's own _growthRateOutputFromCurvature from a synthetic CurvatureOutput (tie-line through the
matrix composition towards x_beta, diagonal diffusivity, gba = 0 i.e. a line compound).
"""
import math
import numpy as np
from kawin.thermo.MultiTherm import CurvatureOutput, _growthRateOutputFromCurvature

R = 8.314


class StubBinary:
    numElements = 2

    def __init__(self, phases, D0=1e-4, Q=130000.0, Tref=700.0):
        # phases: name -> dict(xb, xeq (at Tref), dH)
        self.ph = phases
        self.D0, self.Q, self.Tref = D0, Q, Tref
        self.phases = ['ALPHA'] + list(phases)

    def xeq(self, T, p):
        P = self.ph[p]
        return float(np.squeeze(P['xeq'])) * np.exp(-P['dH'] / R * (1.0 / T - 1.0 / self.Tref))

    def _p(self, precPhase):
        return self.phases[1] if precPhase is None else precPhase

    def getDrivingForce(self, x, T, precPhase=None, removeCache=False, **kw):
        p = self._p(precPhase)
        x = np.atleast_1d(np.squeeze(np.asarray(x, dtype=float))).astype(float)
        T = np.atleast_1d(np.asarray(T, dtype=float))
        if len(x) != len(T):
            if len(x) == 1:
                x = np.repeat(x, len(T))
            else:
                T = np.repeat(T, len(x))
        xb = float(np.squeeze(self.ph[p]['xb']))
        dg = R * T * xb * np.log(np.maximum(x, 1e-300) / self.xeq(T, p))
        return np.squeeze(dg), np.squeeze(xb * np.ones(dg.shape))

    def getInterfacialComposition(self, T, gExtra=0, precPhase=None):
        p = self._p(precPhase)
        T = np.atleast_1d(np.asarray(T, dtype=float))
        g = np.atleast_1d(np.asarray(gExtra, dtype=float))
        if len(T) != len(g):
            if len(T) == 1:
                T = np.repeat(T, len(g))
            else:
                g = np.repeat(g, len(T))
        xb = float(np.squeeze(self.ph[p]['xb']))
        with np.errstate(over='ignore'):
            xa = self.xeq(T, p) * np.exp(g / (R * T * xb))
        xbv = xb * np.ones(xa.shape)
        bad = ~(xa < 0.3 * xb)      # precipitate reported unstable (documented sentinel)
        xa = np.where(bad, -1.0, xa)
        xbv = np.where(bad, -1.0, xbv)
        return np.squeeze(xa), np.squeeze(xbv)

    def D(self, T):
        return self.D0 * np.exp(-self.Q / (R * np.atleast_1d(np.asarray(T, dtype=float))))

    def getInterdiffusivity(self, x, T, removeCache=True, phase=None):
        return np.squeeze(self.D(T))

    def getTracerDiffusivity(self, x, T, removeCache=True, phase=None):
        d = self.D(T)
        return np.squeeze(np.stack([d, d], axis=-1))

    def clearCache(self):
        pass


class StubMulti:
    """Ternary (or higher) multiphase stub."""

    def __init__(self, phases, D0=(1e-4, 3e-4), Q=(130000.0, 125000.0), Tref=700.0):
        self.ph = {k: dict(xb=np.asarray(v['xb'], dtype=float), xeq=np.asarray(v['xeq'], dtype=float), dH=float(v['dH'])) for k, v in phases.items()}
        self.D0 = np.asarray(D0, dtype=float)
        self.Q = np.asarray(Q, dtype=float)
        self.Tref = Tref
        self.numElements = len(self.D0) + 1
        self.phases = ['ALPHA'] + list(phases)
        self.permute = None

    def _p(self, precPhase):
        return self.phases[1] if precPhase is None else precPhase

    def Dv(self, T):
        return self.D0 * np.exp(-self.Q / (R * T))

    def _xeq(self, T, p):
        P = self.ph[p]
        return P['xeq'] * np.exp(-P['dH'] / R * (1.0 / T - 1.0 / self.Tref))

    def _dg(self, x, T, p):
        return R * T * float(np.sum(self.ph[p]['xb'] * np.log(np.maximum(x, 1e-300) / self._xeq(T, p))))

    def getDrivingForce(self, x, T, precPhase=None, removeCache=False, **kw):
        p = self._p(precPhase)
        x = np.atleast_2d(np.asarray(x, dtype=float))
        T = np.atleast_1d(np.asarray(T, dtype=float))
        if len(x) != len(T):
            if len(x) == 1:
                x = np.repeat(x, len(T), axis=0)
            else:
                T = np.repeat(T, len(x))
        dg = np.array([self._dg(xi, Ti, p) for xi, Ti in zip(x, T)])
        comp = np.array([self.ph[p]['xb'] for _ in dg])
        return np.squeeze(dg), np.squeeze(comp)

    def _curv(self, x, T, p):
        x = np.asarray(x, dtype=float)
        T = float(T)
        xb = self.ph[p]['xb']
        xl = [float(v) for v in x]
        xbl = [float(v) for v in xb]
        lxeq = [math.log(float(v)) for v in self._xeq(T, p)]
        ne = len(xl)
        dl = [xbl[i] - xl[i] for i in range(ne)]

        def f(lam):
            s = 0.0
            for i in range(ne):
                s += xbl[i] * (math.log(max(xl[i] - lam * dl[i], 1e-300)) - lxeq[i])
            return s
        dg0 = f(0.0)
        # tie-line through x and xb: ceq = x - lam*(xb - x) with dG(ceq) = 0
        if dg0 > 0:
            lims = [xl[i] / dl[i] for i in range(ne) if dl[i] > 0]
            lo, hi = 0.0, (min(lims) if lims else 1e9) * (1 - 1e-12)
        else:
            lo, hi = -0.999, 0.0
        for _ in range(64):
            mid = 0.5 * (lo + hi)
            if f(mid) > 0:
                lo = mid
            else:
                hi = mid
        ceq = x - 0.5 * (lo + hi) * (xb - x)
        xbar = xb - ceq
        D = self.Dv(T)
        den = float(np.sum(xbar ** 2 * R * T / (D * ceq)))
        mc = 1.0 / den
        dc = (xbar / D) / den
        beta = 1.0 / float(np.sum(xbar ** 2 / (D * ceq)))
        n = len(x)
        return CurvatureOutput(dc=dc, mc=mc, gba=np.zeros((n, n)), beta=beta, c_eq_alpha=ceq, c_eq_beta=xb.copy())

    def curvatureFactor(self, x, T, precPhase=None, removeCache=False, searchDir=None, computeSearchDir=False):
        return self._curv(np.squeeze(x), float(np.squeeze(T)), self._p(precPhase))

    def getGrowthAndInterfacialComposition(self, x, T, dG, Rr, gExtra, precPhase=None, removeCache=False, searchDir=None):
        p = self._p(precPhase)
        x = np.asarray(x, dtype=float)
        return _growthRateOutputFromCurvature(x, dG, Rr, gExtra, self._curv(x, float(np.squeeze(T)), p))

    def impingementFactor(self, x, T, precPhase=None, removeCache=False, searchDir=None):
        return self._curv(np.asarray(x, dtype=float), float(np.squeeze(T)), self._p(precPhase)).beta

    def getInterdiffusivity(self, x, T, removeCache=True, phase=None):
        return np.diag(self.Dv(float(np.squeeze(T))))

    def getTracerDiffusivity(self, x, T, removeCache=True, phase=None):
        d = self.Dv(float(np.squeeze(T)))
        return np.concatenate(([np.mean(d)], d))

    def clearCache(self):
        pass


def _summ(v):
    """Compact, deterministic summary of a call result / argument for the event log."""
    if v is None:
        return None
    if isinstance(v, tuple):
        return tuple(_summ(a) for a in v)
    a = np.asarray(v, dtype=float) if not isinstance(v, str) else v
    return a


class FaultyBackend:
    """Proxy around a backend.  Counts calls per (method, phase), keeps a call log (deep copies of
    arguments and results) and, at scripted call indices, returns the documented failure value
    instead of forwarding:
        growth_none        getGrowthAndInterfacialComposition -> None
        unstable_sentinel  binary getInterfacialComposition   -> -1 for all requested energies
        df_none            getDrivingForce -> (None, None)     [informational only]
    `faults`: list of {'kind', 'n': call index (0-based, counted per kind over all phases), 'len': burst length}.
    A fault is only injected when that query has already succeeded once for that phase, unless
    `allow_first` is set (then the run is tagged out_of_scope_first_call)."""

    LOGGED = ('getDrivingForce', 'getInterfacialComposition', 'getGrowthAndInterfacialComposition', 'impingementFactor',
              'getInterdiffusivity', 'getTracerDiffusivity', 'curvatureFactor')

    def __init__(self, inner, faults=(), allow_first=False, keep_log=True, log_cap=200000):
        self._inner = inner
        self.numElements = inner.numElements
        self.calls = {}            # method -> count
        self.kind_calls = {'growth_none': 0, 'unstable_sentinel': 0, 'df_none': 0}
        self.succeeded = set()     # (method, phase)
        self.fired = {'growth_none': 0, 'unstable_sentinel': 0, 'df_none': 0, 'first_call': 0, 'suppressed_first': 0}
        self.sched = {'growth_none': set(), 'unstable_sentinel': set(), 'df_none': set()}
        for f in faults:
            for j in range(f.get('len', 1)):
                self.sched[f['kind']].add(f['n'] + j)
        self.allow_first = allow_first
        self.keep_log = keep_log
        self.log = []
        self.log_cap = log_cap
        self.last = {}             # (method, phase) -> last successful (args, result)
        self.fault_log = []        # (kind, call index, phase, global seq)
        self.seq = 0
        self.armed = False         # faults are counted/injected only once the harness arms the proxy (after model.setup())

    def __getattr__(self, name):
        return getattr(self._inner, name)

    def _inject(self, kind, method, phase):
        if not self.armed:
            return False
        n = self.kind_calls[kind]
        self.kind_calls[kind] += 1
        if n in self.sched[kind]:
            if (method, phase) not in self.succeeded:
                if not self.allow_first:
                    self.fired['suppressed_first'] += 1
                    return False
                self.fired['first_call'] += 1
            self.fired[kind] += 1
            self.fault_log.append((kind, n, phase, self.seq))
            return True
        return False

    def _record(self, method, phase, args, res):
        self.seq += 1
        self.calls[method] = self.calls.get(method, 0) + 1
        if self.keep_log and len(self.log) < self.log_cap:
            self.log.append((self.seq, method, phase, args, res))

    def getDrivingForce(self, x, T, precPhase=None, removeCache=False, **kw):
        if self._inject('df_none', 'getDrivingForce', precPhase):
            self._record('getDrivingForce', precPhase, (np.array(x, copy=True), np.array(T, copy=True)), 'FAULT')
            return None, None
        res = self._inner.getDrivingForce(x, T, precPhase=precPhase, removeCache=removeCache, **kw)
        self.succeeded.add(('getDrivingForce', precPhase))
        self._record('getDrivingForce', precPhase, (np.array(x, copy=True), np.array(T, copy=True)), (np.array(res[0], copy=True), np.array(res[1], copy=True)) if res[0] is not None else None)
        return res

    def getInterfacialComposition(self, *a, **kw):
        if self.numElements == 2:
            T, g = a[0], (a[1] if len(a) > 1 else kw.get('gExtra', 0))
            p = kw.get('precPhase', a[2] if len(a) > 2 else None)
            if self._inject('unstable_sentinel', 'getInterfacialComposition', p):
                shp = np.broadcast(np.atleast_1d(T), np.atleast_1d(g)).shape
                self._record('getInterfacialComposition', p, (np.array(T, copy=True), np.array(g, copy=True)), 'FAULT')
                return np.squeeze(-1.0 * np.ones(shp)), np.squeeze(-1.0 * np.ones(shp))
            gcopy = np.array(g, dtype=float, copy=True)
            res = self._inner.getInterfacialComposition(T, gcopy, precPhase=p)
            self.succeeded.add(('getInterfacialComposition', p))
            out = (np.array(res[0], dtype=float, copy=True), np.array(res[1], dtype=float, copy=True))
            self._record('getInterfacialComposition', p, (np.array(T, copy=True), np.array(g, dtype=float, copy=True)), out)
            self.last[('getInterfacialComposition', p)] = ((np.array(T, copy=True), np.array(g, dtype=float, copy=True)), out)
            return res
        return self._inner.getInterfacialComposition(*a, **kw)

    def getGrowthAndInterfacialComposition(self, x, T, dG, R_, gExtra, precPhase=None, removeCache=False, searchDir=None):
        args = (np.array(x, dtype=float, copy=True), float(np.squeeze(T)), float(np.squeeze(dG)), np.array(R_, dtype=float, copy=True), np.array(gExtra, dtype=float, copy=True))
        if self._inject('growth_none', 'getGrowthAndInterfacialComposition', precPhase):
            self._record('getGrowthAndInterfacialComposition', precPhase, args, 'FAULT')
            return None
        res = self._inner.getGrowthAndInterfacialComposition(x, T, dG, R_, gExtra, precPhase=precPhase, removeCache=removeCache, searchDir=searchDir)
        if res is None:
            self._record('getGrowthAndInterfacialComposition', precPhase, args, None)
            return None
        self.succeeded.add(('getGrowthAndInterfacialComposition', precPhase))
        out = tuple(np.array(v, dtype=float, copy=True) for v in res)
        self._record('getGrowthAndInterfacialComposition', precPhase, args, out)
        self.last[('getGrowthAndInterfacialComposition', precPhase)] = (args, out)
        return res

    def impingementFactor(self, x, T, precPhase=None, removeCache=False, searchDir=None):
        res = self._inner.impingementFactor(x, T, precPhase=precPhase, removeCache=removeCache, searchDir=searchDir)
        self._record('impingementFactor', precPhase, (np.array(x, dtype=float, copy=True), float(np.squeeze(T))), res)
        return res

    def getInterdiffusivity(self, x, T, removeCache=True, phase=None):
        res = self._inner.getInterdiffusivity(x, T, removeCache=removeCache, phase=phase)
        self._record('getInterdiffusivity', phase, (np.array(x, dtype=float, copy=True), np.array(T, dtype=float, copy=True)), np.array(res, copy=True))
        return res

    def getTracerDiffusivity(self, x, T, removeCache=True, phase=None):
        res = self._inner.getTracerDiffusivity(x, T, removeCache=removeCache, phase=phase)
        self._record('getTracerDiffusivity', phase, (np.array(x, dtype=float, copy=True), np.array(T, dtype=float, copy=True)), np.array(res, copy=True))
        return res
