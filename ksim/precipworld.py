"""Precipitation world: builds a real kawin PrecipitateModel from a JSON config, behind a
(fault-injecting) backend proxy, with a per-step observer in the coupling-model slot and
read-only taps on protected methods.  Shared by C01, C02, C03, C11-C14, C18-C20.
"""
import math, copy, os
import numpy as np
from ksim import core, stubs
from kawin.precipitation import PrecipitateModel, VolumeParameter
from kawin.precipitation.PrecipitationParameters import TemperatureParameters, MatrixParameters, PrecipitateParameters, Constraints
from kawin.solver import SolverType

ITER = {'euler': SolverType.EXPLICITEULER, 'rk4': SolverType.RK4}
VOLTYPE = {'VM': VolumeParameter.MOLAR_VOLUME, 'VA': VolumeParameter.ATOMIC_VOLUME, 'a': VolumeParameter.LATTICE_PARAMETER}
from kawin.Constants import AVOGADROS_NUMBER as AVO

_REAL = {}


def real_backend(kind):
    """Pristine real thermodynamics objects are built once in the parent (before forking) and never
    queried there; each run executes in a forked child and therefore starts from a cold object."""
    if kind in _REAL:
        return _REAL[kind]
    from kawin.thermo import BinaryThermodynamics, MulticomponentThermodynamics
    from kawin.tests import datasets as ds
    if kind == 'real_alzr':
        t = BinaryThermodynamics(ds.ALZR_TDB, ['AL', 'ZR'], ['FCC_A1', 'AL3ZR'], drivingForceMethod='tangent')
        t.setDiffusivity(_alzr_diff, 'FCC_A1')
    elif kind == 'real_nicral':
        t = MulticomponentThermodynamics(ds.NICRAL_TDB, ['NI', 'AL', 'CR'], ['FCC_A1', 'FCC_L12'], drivingForceMethod='tangent')
    elif kind == 'real_almgsi':
        t = MulticomponentThermodynamics(ds.ALMGSI_DB, ['AL', 'MG', 'SI'], ['FCC_A1', 'MGSI_B_P', 'MG5SI6_B_DP'], drivingForceMethod='tangent')
    else:
        raise ValueError(kind)
    t.setDFSamplingDensity(2000)
    t.setEQSamplingDensity(500)
    _REAL[kind] = t
    return t


def _alzr_diff(T):
    return 0.0768 * np.exp(-242000 / (8.314 * T))


def real_config(kind, rng=None):
    """Configurations of the shipped examples/tests for the real databases (with seeded variations)."""
    r = rng
    if kind == 'real_alzr':
        a = 0.405e-9
        cfg = {'backend': kind, 'phases': ['AL3ZR'], 'elements': ['ZR'], 'x0': [r.choice([4e-3, 4e-3, 2e-3, 6e-3]) if r else 4e-3],
               'T': {'kind': 'const', 'T': (r.choice([723.15, 723.15, 673.15, 748.15]) if r else 723.15)}, 'T_via': 'setter',
               'VmA': [a ** 3, 'VA', 4], 'pbm': {'cMin': 1e-10, 'cMax': 1e-8, 'bins': 75, 'minBins': 50, 'maxBins': 100, 'adaptive': True},
               'phase_params': {'AL3ZR': {'gamma': (r.choice([0.1, 0.1, 0.08, 0.12]) if r else 0.1), 'VmB': [a ** 3, 'VA', 4], 'site': 'dislocations'}},
               'nuc_density': {'grainSize': 1, 'dislocationDensity': 1e15}, 'constraints': {}, 'record_psd': False}
    elif kind == 'real_nicral':
        a = 0.352e-9
        cfg = {'backend': kind, 'phases': ['FCC_L12'], 'elements': ['AL', 'CR'], 'x0': [0.098, 0.083],
               'T': {'kind': 'const', 'T': (r.choice([1073.0, 1073.0, 1023.0]) if r else 1073.0)}, 'T_via': 'setter',
               'VmA': [a ** 3, 'VA', 4], 'pbm': {'cMin': 1e-10, 'cMax': 1e-8, 'bins': 75, 'minBins': 50, 'maxBins': 100, 'adaptive': True},
               'phase_params': {'FCC_L12': {'gamma': (r.choice([0.023, 0.023, 0.03]) if r else 0.023), 'VmB': [a ** 3, 'VA', 4], 'site': 'bulk'}},
               'nuc_density': {'bulkN0': 1e30}, 'constraints': {}, 'record_psd': False}
    elif kind == 'real_almgsi':
        cfg = {'backend': kind, 'phases': ['MGSI_B_P', 'MG5SI6_B_DP'], 'elements': ['MG', 'SI'], 'x0': [0.0072, 0.0057],
               'T': {'kind': 'const', 'T': 448.15}, 'T_via': 'setter', 'VmA': [1e-5, 'VM', 4],
               'pbm': {'cMin': 1e-10, 'cMax': 1e-8, 'bins': 75, 'minBins': 50, 'maxBins': 100, 'adaptive': True},
               'phase_params': {'MGSI_B_P': {'gamma': 0.18, 'VmB': [1e-5, 'VM', 4], 'site': 'bulk'},
                                'MG5SI6_B_DP': {'gamma': 0.084, 'VmB': [1e-5, 'VM', 4], 'site': 'bulk'}},
               'constraints': {}, 'record_psd': False}
    else:
        raise ValueError(kind)
    return cfg


def preload(kinds):
    for k in sorted(set(kinds)):
        if k.startswith('real_'):
            real_backend(k)


class StepCap(Exception):
    pass


def temperature_callable(spec):
    if spec['kind'] == 'const':
        return None
    times = list(spec['times'])
    temps = list(spec['temps'])

    def f(t):
        return np.interp(t / 3600, times, temps, temps[0], temps[-1])
    return f


def ref_temperature(spec, t):
    """Independent evaluation of the user schedule (hours, kelvin) at time t in seconds."""
    if spec['kind'] == 'const':
        return float(spec['T'])
    th = t / 3600
    times, temps = spec['times'], spec['temps']
    if th <= times[0]:
        return float(temps[0])
    if th >= times[-1]:
        return float(temps[-1])
    for i in range(len(times) - 1):
        if times[i] <= th <= times[i + 1]:
            if times[i + 1] == times[i]:
                return float(temps[i + 1])
            w = (th - times[i]) / (times[i + 1] - times[i])
            return float(temps[i] + w * (temps[i + 1] - temps[i]))
    return float(temps[-1])


def make_backend(cfg):
    b = cfg['backend']
    if b == 'stub_bin':
        return stubs.StubBinary({p: cfg['phase_params'][p]['thermo'] for p in cfg['thermo_phase_order']}, **cfg.get('diff', {}))
    if b == 'stub_multi':
        return stubs.StubMulti({p: cfg['phase_params'][p]['thermo'] for p in cfg['thermo_phase_order']}, **cfg.get('diff', {}))
    return real_backend(b)


# radius-dependent aspect ratios: 'fn' (unbounded power law; kept for the replay files recorded with it) and 'fnb' (bounded, what the generators
# use: below 1 for the smallest classes, where kawin clamps it to exactly 1, saturating at 3)
AR_FUNCS = {'fn': lambda R: 1.5 * (np.asarray(R, dtype=float) / 1e-9) ** 1.1,
            'fnb': lambda R: 0.5 + 2.5 * np.asarray(R, dtype=float) / (np.asarray(R, dtype=float) + 1e-9)}


def apply_temperature(m, tspec):
    if tspec['kind'] == 'const':
        m.setTemperature(tspec['T'])
    elif tspec['kind'] == 'array':
        m.setTemperature(list(tspec['times']), list(tspec['temps']))
    else:
        m.setTemperature(temperature_callable(tspec))


def build_model(cfg, faults=(), allow_first=False, keep_log=True):
    if cfg.get('pre'):
        try:
            pm, _ = build_model(cfg['pre'], keep_log=False)
            pm.setup()
        except Exception:  # noqa  (the predecessor only has to have existed)
            pass
    inner = make_backend(cfg)
    backend = stubs.FaultyBackend(inner, faults=faults, allow_first=allow_first, keep_log=keep_log)
    phases = list(cfg['phases'])
    elements = list(cfg['elements'])
    tspec = cfg['T']
    via = cfg.get('T_via', 'setter')
    if via == 'ctor':
        if tspec['kind'] == 'const':
            tp = TemperatureParameters(tspec['T'])
        elif tspec['kind'] == 'array':
            tp = TemperatureParameters(list(tspec['times']), list(tspec['temps']))
        else:
            tp = TemperatureParameters(temperature_callable(tspec))
        m = PrecipitateModel(phases=phases, elements=elements, temperatureParameters=tp)
    else:
        m = PrecipitateModel(phases=phases, elements=elements)
        if tspec['kind'] == 'const':
            m.setTemperature(tspec['T'])
        elif tspec['kind'] == 'array':
            m.setTemperature(list(tspec['times']), list(tspec['temps']))
        else:
            m.setTemperature(temperature_callable(tspec))
    pb = cfg['pbm']
    m.setPBMParameters(cMin=pb['cMin'], cMax=pb['cMax'], bins=pb['bins'], minBins=pb['minBins'], maxBins=pb['maxBins'], adaptive=pb.get('adaptive', True))
    x0 = cfg['x0']
    m.setInitialComposition(x0[0] if len(elements) == 1 else list(x0))
    va = cfg['VmA']
    m.setVolumeAlpha(va[0], VOLTYPE[va[1]], va[2])
    if 'gbEnergy' in cfg:
        m.setGrainBoundaryEnergy(cfg['gbEnergy'])
    if 'nuc_density' in cfg:
        m.setNucleationDensity(**cfg['nuc_density'])
    for p in phases:
        pp = cfg['phase_params'][p]
        m.setInterfacialEnergy(pp['gamma'], phase=p)
        vb = pp['VmB']
        m.setVolumeBeta(vb[0], VOLTYPE[vb[1]], vb[2], phase=p)
        m.setNucleationSite(pp.get('site', 'bulk'), phase=p)
        shp = pp.get('shape', 'sphere')
        if shp != 'sphere':
            ar_ = pp.get('ar', 1.0)
            m.setPrecipitateShape(shp, phase=p, ratio=AR_FUNCS[ar_] if ar_ in AR_FUNCS else ar_)
        if pp.get('strain'):
            # elastic strain energy of the precipitate (ellipsoidal inclusion); optionally the aspect ratio follows from it
            from kawin.precipitation import StrainEnergy
            st = pp['strain']
            se = StrainEnergy()
            se.setEigenstrain(list(st['eig']))
            se.setModuli(G=st['G'], nu=st['nu'])
            se.setShape('ellipsoid')
            m.setStrainEnergy(se, phase=p, calculateAspectRatio=bool(st.get('calcAR', False)))
        if not pp.get('infDiff', True):
            m.setInfinitePrecipitateDiffusivity(False, phase=p)
        if pp.get('parents'):
            m.setParentPhases(p, pp['parents'])
    if cfg.get('constraints'):
        m.setConstraints(**cfg['constraints'])
    if cfg.get('betaBinary'):
        m.setBetaBinary(cfg['betaBinary'])
    if cfg.get('record_psd'):
        m.setPSDrecording(True)
    if 'effDiff' in cfg:
        m.enableEffectiveDiffusionDistance(cfg['effDiff'])
    if 'theta' in cfg:
        m.setTheta(cfg['theta'])
    m.setThermodynamics(backend, removeCache=cfg.get('removeCache', False))
    if cfg.get('sibling'):
        # a second model configured (never solved) AFTER this one and before this one is solved: configure A, configure B, solve A
        try:
            build_model(cfg['sibling'], keep_log=False)
        except Exception:  # noqa
            pass
    return m, backend


class Observer:
    """Coupling model: updateCoupledModel(model) is called once per accepted step, after the
    distribution has been updated.  Dispatches to the monitors of the property under check."""

    def __init__(self, monitors, step_cap):
        self.monitors = monitors
        self.step_cap = step_cap
        self.steps = 0

    def updateCoupledModel(self, model):
        self.steps += 1
        for mon in self.monitors:
            mon.on_step(model)
        if self.steps >= self.step_cap:
            raise StepCap()


def tap(obj, name, before=None, after=None):
    """Read-only tap on an instance method: calls the original, returns its value unchanged."""
    orig = getattr(obj, name)

    def wrapped(*a, **kw):
        if before is not None:
            before(*a, **kw)
        out = orig(*a, **kw)
        if after is not None:
            after(out, *a, **kw)
        return out
    setattr(obj, name, wrapped)
    return orig


def run_ops(model, ops, observer, F=None, on_call_end=None, prefix='C03'):
    """Executes solve ops.  Returns dict(calls=[...], capped=bool).  Exceptions escaping solve are
    reported as <prefix>.exception unless they are the harness' own StepCap."""
    info = {'calls': [], 'capped': False, 'exception': None}
    for ci, op in enumerate(ops):
        if op['op'] == 'set_temperature':
            # the schedule is replaced between two solve calls through the public setter
            apply_temperature(model, op['spec'])
            if on_call_end is not None:
                on_call_end(ci, {'ci': ci, 'op': 'set_temperature', 'spec': op['spec']})
            continue
        if op['op'] == 'reconfigure':
            # calibration-sweep history: the SAME model object is reset and given other energies, then solved again
            model.reset()
            for ph, g in op.get('gamma', {}).items():
                model.setInterfacialEnergy(g, phase=ph)
            if 'gbEnergy' in op:
                model.setGrainBoundaryEnergy(op['gbEnergy'])
            if on_call_end is not None:
                on_call_end(ci, {'ci': ci, 'op': 'reconfigure'})
            continue
        if op['op'] != 'solve':
            continue
        t_start = float(model.pData.time[model.pData.n])
        n0 = model.pData.n
        try:
            model.solve(op['T'], solverType=ITER[op.get('it', 'rk4')], minDtFrac=op.get('minf', 1e-8), maxDtFrac=op.get('maxf', 1.0))
            ended = 'complete'
        except StepCap:
            ended = 'capped'
            info['capped'] = True
        except core.RunTimeout:
            raise
        except Exception as e:  # noqa
            import traceback
            tb = traceback.extract_tb(e.__traceback__)
            kw = [f for f in tb if '/kawin/' in f.filename]
            hw = [f for f in tb if '/verif/' in f.filename and 'precipworld' not in f.filename and f.name not in ('execute', 'run_ops')]
            loc = f'{os.path.basename(kw[-1].filename)}:{kw[-1].name}' if kw else 'harness'
            info['exception'] = (type(e).__name__, str(e), loc)
            ended = 'exception'
            if F is not None:
                F.add(prefix + '.exception.' + type(e).__name__, f'solve call {ci} raised {type(e).__name__}: {e} at {loc} (step {model.pData.n})', exc=type(e).__name__, loc=loc)
        info['calls'].append({'ci': ci, 't_start': t_start, 't_end_req': t_start + op['T'], 'n0': n0, 'n1': model.pData.n, 'ended': ended})
        if on_call_end is not None:
            if on_call_end(ci, info['calls'][-1]) == 'break':
                break
        if ended != 'complete':
            break
    return info


# ------------------------------------------------------------------ config generation (swarm style)
SITES = ['bulk', 'dislocations', 'grain boundaries', 'grain edges', 'grain corners']
SITE_KMAX = {'grain boundaries': 1.0, 'grain edges': math.sqrt(3) / 2, 'grain corners': math.sqrt(2 / 3)}


def gen_stub_phase(rng, nel, idx, x0):
    """A precipitate phase that is supersaturated at the reference temperature for composition x0."""
    if nel == 1:
        xb = [rng.choice([0.25, 0.25, 0.5, 0.33, 0.75])]
        ss = rng.choice([3, 8, 25, 25, 60])            # supersaturation ratio x0/xeq
        xeq = [x0[0] / ss]
    else:
        # compound rich in one or both solutes
        major = idx % nel
        xb = [0.001 + (0.25 if e == major else 0.0) + (rng.uniform(0.05, 0.2) if rng.random() < 0.3 and e != major else 0.0) for e in range(nel)]
        ss = rng.choice([5, 10, 25, 40])
        xeq = [x0[e] / (ss if xb[e] > 0.05 else rng.uniform(0.5, 2.0)) for e in range(nel)]
    return {'xb': xb, 'xeq': xeq, 'dH': rng.choice([30000.0, 40000.0, 45000.0, 60000.0])}


def gen_volume(rng, Vm):
    kind = rng.choice(['VM', 'VM', 'VA', 'a'])
    atoms = rng.choice([1, 2, 4])
    if kind == 'VM':
        return [Vm, 'VM', atoms]
    Va = atoms * Vm / AVO
    if kind == 'VA':
        return [Va, 'VA', atoms]
    return [Va ** (1 / 3), 'a', atoms]


def gen_stub_config(rng, nphase=None, nel=None, temperature='const', allow_gb=True, allow_shapes=True):
    nel = nel or rng.choice([1, 1, 2])
    nphase = nphase or rng.choice([1, 1, 2, 3] if nel > 1 else [1, 1, 1, 2])
    Tref = 700.0
    if nel == 1:
        x0 = [rng.choice([0.004, 0.01, 0.02])]
        elements = ['B']
    else:
        x0 = [rng.choice([0.006, 0.01]), rng.choice([0.005, 0.008, 0.012])]
        elements = ['B', 'C']
    phases = [f'p{i + 1}' for i in range(nphase)]
    VmA = 1e-5 * rng.choice([1.0, 1.0, 0.8, 1.3])
    pp = {}
    for i, p in enumerate(phases):
        site = 'bulk'
        r = rng.random()
        if r < 0.25:
            site = 'dislocations'
        elif allow_gb and r < 0.45:
            site = rng.choice(SITES[2:])
        shape, ar = 'sphere', 1.0
        if allow_shapes and site in ('bulk', 'dislocations') and rng.random() < 0.25:
            shape = rng.choice(['needle', 'plate', 'cubic'])
            # aspect ratio: constants incl. the default 1 (a non-spherical shape at ratio exactly 1), or a bounded function of the radius
            # (0.5 + 2.5 R/(R + 1 nm): below 1 for the smallest classes, where kawin clamps it to exactly 1, saturating at 3)
            ar = rng.choice([1.5, 2.0, 4.0, 1.0, 'fnb'])
        pp[p] = {'thermo': gen_stub_phase(rng, nel, i, x0), 'gamma': rng.choice([0.1, 0.12, 0.15, 0.2, 0.25]),
                 'VmB': gen_volume(rng, VmA * rng.choice([1.0, 1.0, 0.5, 0.7, 1.5, 2.0])), 'site': site, 'shape': shape, 'ar': ar,
                 'infDiff': rng.random() < 0.8}
    bins = 2 * rng.randint(15, 40)
    minBins = 2 * rng.randint(8, bins // 2)
    maxBins = max(2 * minBins, 2 * ((bins + rng.randint(2, 30)) // 2))
    cfg = {'backend': 'stub_bin' if nel == 1 else 'stub_multi', 'phases': phases, 'thermo_phase_order': list(phases), 'elements': elements, 'x0': x0,
           'T': {'kind': 'const', 'T': Tref * rng.choice([1.0, 1.0, 0.97, 1.03])},
           'T_via': rng.choice(['setter', 'ctor']),
           'VmA': gen_volume(rng, VmA), 'gbEnergy': rng.choice([0.3, 0.1, 0.2, 0.0]),
           'pbm': {'cMin': 1e-10, 'cMax': rng.choice([2e-9, 5e-9, 1e-8]), 'bins': bins, 'minBins': minBins, 'maxBins': maxBins, 'adaptive': rng.random() < 0.8},
           'phase_params': pp, 'constraints': {}, 'record_psd': False}
    # keep the grain-boundary ratio admissible (kawin raises ValueError before the first step otherwise)
    for p in phases:
        s = pp[p]['site']
        if s in SITE_KMAX:
            kmax = SITE_KMAX[s]
            k = cfg['gbEnergy'] / (2 * pp[p]['gamma'])
            if k >= 0.95 * kmax:
                pp[p]['gamma'] = round(cfg['gbEnergy'] / (2 * 0.8 * kmax), 4)
    cons = {}
    if rng.random() < 0.4:
        cons['maxVolumeChange'] = rng.choice([1e-3, 1e-4, 2e-5])
    for sw_ in ('checkPSD', 'checkRcrit', 'checkNucleation', 'checkVolumePre', 'checkTemperature'):
        if rng.random() < 0.08:
            cons[sw_] = False
    if rng.random() < 0.2:
        # (a positive floor well inside the range the matrix composition visits: only a NEGATIVE balance value may be replaced by it)
        cons['minComposition'] = rng.choice([0, 1e-8, round(min(cfg['x0']) * 0.1, 8), round(min(cfg['x0']) * 0.5, 8), round(min(cfg['x0']) * 0.9, 8)])
    if rng.random() < 0.15:
        cons['dtScale'] = rng.choice([1e-2, 0.1])
    if rng.random() < 0.08:
        cons['minRadius'] = rng.choice([1.5e-10, 5e-10])
    if rng.random() < 0.08:
        cons['maxDissolution'] = rng.choice([1e-2, 1e-4])
    if rng.random() < 0.08:
        cons['maxNucleationRateChange'] = rng.choice([0.1, 1.0])
    if rng.random() < 0.06:
        cons['minNucleationRate'] = rng.choice([1e-10, 1.0])
    cfg['constraints'] = cons
    if nel == 1 and rng.random() < 0.3:
        cfg['betaBinary'] = 2
    if nel == 1 and rng.random() < 0.15:
        cfg['effDiff'] = False          # effective diffusion distance correction switched off (binary growth rate)
    if rng.random() < 0.1:
        cfg['theta'] = 4 * math.pi      # Wakeshima incubation factor instead of the default 2
    return cfg


def gen_solve_ops(rng, base=None, ncalls=None, floor_bound_prob=0.15):
    """Log-spaced solve calls.  `base` is the duration of the first call in seconds."""
    ncalls = ncalls or rng.choice([1, 2, 2, 3, 4])
    base = base or 10 ** rng.uniform(-2.5, -1)
    ops = []
    T = base
    for i in range(ncalls):
        floor = rng.random() < floor_bound_prob
        ops.append({'op': 'solve', 'T': T, 'it': rng.choice(['euler', 'rk4']), 'minf': rng.choice([1e-3, 1e-2]) if floor else rng.choice([1e-8, 1e-6, 1e-5]),
                    'maxf': rng.choice([1.0, 1.0, 0.1, 0.05])})
        T = T * rng.choice([2, 5, 10])
    return ops


def gen_run_record(rng, real_frac=0.15, real_kinds=('real_alzr', 'real_alzr', 'real_nicral', 'real_almgsi'), cap=250, real_cap=90, **cfgkw):
    """A fault-free precipitation run record (config + solve ops), stub or real backend."""
    if rng.random() >= real_frac:
        cfg = gen_stub_config(rng, **cfgkw)
        ops = gen_solve_ops(rng)
        if rng.random() < 0.1:
            # history of the process: another model with the same phase/element names but other parameters was set up first;
            # the model under test must not inherit anything from it (shared default objects, module-level caches)
            cfg['pre'] = gen_stub_config(rng, nel=len(cfg['elements']))
        elif rng.random() < 0.12:
            sib = gen_stub_config(rng, nel=len(cfg['elements']))
            # the sibling always differs in its temperature specification
            Ts = cfg['T']['T'] + rng.choice([-40, 25, 60]) if cfg['T']['kind'] == 'const' else cfg['T']['temps'][0] - 35
            sib['T'] = rng.choice([{'kind': 'const', 'T': Ts}, {'kind': 'array', 'times': [0.0, 1e-5], 'temps': [Ts, Ts + 30]}])
            cfg['sibling'] = sib
        return {'cfg': cfg, 'ops': ops, 'cap': cap}
    kind = rng.choice(list(real_kinds))
    cfg = real_config(kind, rng)
    base = {'real_alzr': 10.0, 'real_nicral': 0.3, 'real_almgsi': 10.0}[kind]
    ops = []
    T = base
    for _ in range(rng.choice([2, 3, 3])):
        ops.append({'op': 'solve', 'T': T, 'it': rng.choice(['euler', 'rk4']), 'minf': rng.choice([1e-2, 2e-2]), 'maxf': 1.0})
        T *= 10
    return {'cfg': cfg, 'ops': ops, 'cap': real_cap}


def shrink_run_record(rec):
    """Generic shrink candidates for precipitation run records."""
    if len(rec['ops']) > 1:
        for c in core.ddmin_candidates(rec['ops']):
            if c:
                r = copy.deepcopy(rec); r['ops'] = c; yield r
    for i, op in enumerate(rec['ops']):
        if op.get('op', 'solve') != 'solve':
            continue
        if op['T'] > 1e-4:
            r = copy.deepcopy(rec); r['ops'][i]['T'] = op['T'] / 2; yield r
        if op.get('it') != 'euler':
            r = copy.deepcopy(rec); r['ops'][i]['it'] = 'euler'; yield r
        if op.get('maxf', 1.0) != 1.0:
            r = copy.deepcopy(rec); r['ops'][i]['maxf'] = 1.0; yield r
    if rec.get('cap', 0) > 20:
        r = copy.deepcopy(rec); r['cap'] = max(10, rec['cap'] // 2); yield r
    cfg = rec['cfg']
    for key in ('pre', 'sibling'):
        if cfg.get(key):
            r = copy.deepcopy(rec); del r['cfg'][key]; yield r
    if len(cfg['phases']) > 1 and not cfg['backend'].startswith('real_'):
        for drop in cfg['phases']:
            r = copy.deepcopy(rec)
            r['cfg']['phases'] = [p for p in cfg['phases'] if p != drop]
            r['cfg']['thermo_phase_order'] = [p for p in cfg['thermo_phase_order'] if p != drop]
            yield r
    if cfg.get('constraints'):
        r = copy.deepcopy(rec); r['cfg']['constraints'] = {}; yield r
        for k in list(cfg['constraints']):
            r = copy.deepcopy(rec); del r['cfg']['constraints'][k]; yield r
    for p in cfg['phases']:
        pp = cfg['phase_params'][p]
        for key, val in (('site', 'bulk'), ('shape', 'sphere'), ('infDiff', True)):
            if pp.get(key, val) != val:
                r = copy.deepcopy(rec); r['cfg']['phase_params'][p][key] = val
                if key == 'shape':
                    r['cfg']['phase_params'][p]['ar'] = 1.0
                yield r
        if pp['VmB'][1] != 'VM' and not cfg['backend'].startswith('real_'):
            from ksim import refs
            r = copy.deepcopy(rec); r['cfg']['phase_params'][p]['VmB'] = [refs.vm_from_spec(pp['VmB'])[0], 'VM', 4]; yield r
    if cfg.get('betaBinary'):
        r = copy.deepcopy(rec); del r['cfg']['betaBinary']; yield r
    if cfg.get('T_via') == 'ctor':
        r = copy.deepcopy(rec); r['cfg']['T_via'] = 'setter'; yield r
    if cfg['pbm'].get('adaptive', True) is False:
        r = copy.deepcopy(rec); r['cfg']['pbm']['adaptive'] = True; yield r
