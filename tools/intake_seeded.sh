#!/bin/bash
# usage: tools/intake_seeded.sh <ID> <suffix> [extra check ids]   -- takes patch.diff + demo from the sub-agent's scratch worktree /tmp/seed/<ID><suffix>,
# stores them under seeded/<ID>-<suffix>/, confirms them (verify_seeded.sh) and runs the property's quick check against the change (try_seeded.sh)
id=$1; sfx=$2; extra=$3
cd "$(dirname "$0")/.."
d=seeded/$id-$sfx; mkdir -p $d
cp /tmp/seed/$id$sfx/patch.diff $d/ && cp /tmp/seed/$id$sfx/demo_$id.py $d/ || exit 2
(tools/verify_seeded.sh $d 2>&1 | grep -v conda | tail -2 | sed "s/^/$id-$sfx verify: /") &
(tools/try_seeded.sh $d/patch.diff $id${extra:+,$extra} quick 2>&1 | grep -v conda | grep -E "DETECTED|MISSED|NOT APPLY" | cut -c1-420 | sed "s/^/$id-$sfx /") &
wait
