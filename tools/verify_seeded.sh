#!/bin/bash
# usage: tools/verify_seeded.sh <dir with patch.diff and demo_*.py>  -- confirms: demo passes on the clean tree, fails with the patch, test suite passes with the patch
d=$(readlink -f "$1")
demo=$(ls $d/demo_*.py | head -1)
wt=$(mktemp -d /tmp/ksim_vs_XXXX)
git -C /repo worktree add -q --detach "$wt" HEAD || exit 2
cd "$wt"
PYTHONPATH="$wt" timeout 900 /venv/bin/python "$demo" >/tmp/vs_clean.log 2>&1; rc_clean=$?
git apply "$d/patch.diff" || { echo "PATCH DOES NOT APPLY"; git -C /repo worktree remove --force "$wt"; exit 2; }
PYTHONPATH="$wt" timeout 900 /venv/bin/python "$demo" >/tmp/vs_patched.log 2>&1; rc_patched=$?
tests=$(PYTHONPATH="$wt" timeout 1800 /venv/bin/python -m pytest -q -p no:cacheprovider kawin/tests 2>&1 | tail -1)
echo "demo clean rc=$rc_clean  patched rc=$rc_patched  tests: $tests"
cd /; git -C /repo worktree remove --force "$wt"
[ $rc_clean -eq 0 ] && [ $rc_patched -ne 0 ] && echo "$tests" | grep -q "97 passed" && echo CONFIRMED || echo NOT-CONFIRMED
