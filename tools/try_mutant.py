#!/usr/bin/env python3
"""usage: try_mutant.py <ID[,ID..]> <repo-relative file> <old> <new> [--runs N]
Applies a textual mutation to /repo (must be clean), runs the quick checks, reverts. Prints DETECTED / MISSED per id."""
import sys, subprocess, os
ids, path, old, new = sys.argv[1:5]
extra = sys.argv[5:]
assert subprocess.run(['git', '-C', '/repo', 'status', '--porcelain'], capture_output=True, text=True).stdout.strip() == '', '/repo not clean'
full = os.path.join('/repo', path)
s = open(full).read()
assert s.count(old) >= 1, 'pattern not found'
open(full, 'w').write(s.replace(old, new, 1))
try:
    for pid in ids.split(','):
        cp = subprocess.run(['/verif/check', pid, '--tier', 'quick', '--no-evidence', '--no-shrink'] + extra, capture_output=True, text=True)
        lines = [l for l in cp.stdout.splitlines() if l.startswith(('FAILURE', 'VIOLATION', 'HARNESS', 'NONREPRO'))]
        print(pid, 'DETECTED' if cp.returncode == 1 else f'MISSED(rc={cp.returncode})', '|', (lines[0][:260] if lines else cp.stdout[-300:]))
finally:
    subprocess.run(['git', '-C', '/repo', 'checkout', '--', '.'])
