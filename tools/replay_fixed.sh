#!/bin/bash
# Replays every minimised record of a repaired defect (must pass: exit 0) and of a known finding
# (must print KNOWN-FINDING and exit 0) against the current /repo tree.
cd "$(dirname "$0")/.."
bad=0
for f in fixed_replays/*.json known_replays/*.json; do
  id=$(python3 -c "import json,sys; print(json.load(open('$f'))['property'])")
  out=$(./check $id --replay $f 2>&1 | grep -v conda)
  rc=$?
  if echo "$out" | grep -q "^VIOLATION"; then echo "RETURNED  $f"; echo "$out" | tail -3; bad=1
  elif [[ $f == known_replays/* ]] && ! echo "$out" | grep -q "KNOWN-FINDING"; then echo "NOT-SEEN  $f (known finding no longer reproduced)"; 
  else echo "ok        $f"; fi
done
exit $bad
