#!/bin/bash
# usage: tools/try_seeded.sh <patch.diff> <ID[,ID...]> [tier]
# Applies a seeded change in a scratch worktree of /repo (outside /repo and /verif), runs the given checks against it
# (KSIM_REPO override), prints DETECTED / MISSED per check, removes the worktree.
patch=$(readlink -f "$1"); ids=$2; tier=${3:-quick}
cd "$(dirname "$0")/.."
wt=$(mktemp -d /tmp/ksim_seed_XXXX)
git -C /repo worktree add -q --detach "$wt" HEAD || exit 2
if ! git -C "$wt" apply "$patch"; then echo "PATCH DOES NOT APPLY"; git -C /repo worktree remove --force "$wt"; exit 2; fi
for id in ${ids//,/ }; do
  out=$(KSIM_REPO="$wt" timeout 3600 ./check $id --tier $tier --no-evidence --no-shrink 2>&1 | grep -v conda)
  if echo "$out" | grep -q "^VIOLATION"; then echo "$id DETECTED | $(echo "$out" | grep -E '^FAILURE' | head -2 | cut -c1-300)"
  else echo "$id MISSED | $(echo "$out" | grep -E 'done|HARNESS' | tail -2 | cut -c1-200)"; fi
done
git -C /repo worktree remove --force "$wt"
