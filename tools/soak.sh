#!/bin/bash
# usage: tools/soak.sh <tier> <seed...>   -- runs every registered check for each seed without touching evidence; prints a summary line per run
tier=$1; shift
cd "$(dirname "$0")/.."
for seed in "$@"; do
  for id in ${IDS:-C01 C02 C03 C04 C05 C06 C07 C08 C09 C11 C12 C13 C14 C17 C18 C19 C20}; do
    out=$(VERIF_SEED=$seed timeout 7200 ./check $id --tier $tier --no-evidence 2>&1 | grep -v conda)
    rc=$?
    echo "seed=$seed $id $(echo "$out" | grep -E '^\[C..\] done' | tail -1)"
    echo "$out" | grep -E "VIOLATION|HARNESS|NONREPRO|failing check" | head -6
  done
done
