#!/usr/bin/env python3
"""usage: tools/mkmeta.py <ID> <suffix> <round> <change> <needs> <detected_by,comma> <history note>  -- writes seeded/<ID>-<suffix>/meta.json"""
import sys, json
id, sfx, rnd, change, needs, det, note = sys.argv[1:8]
det = det.split(',')
json.dump({"breaks_property": id, "round": int(rnd), "change": change, "needs_to_manifest": needs,
           "author": "independent sub-agent given only the property text and a scratch worktree (told what earlier rounds produced, asked for a different clause/file)",
           "confirmed_by": f"tools/verify_seeded.sh seeded/{id}-{sfx}  (demo exits 0 on the clean tree, non-zero with the patch; 97 existing tests pass with the patch)",
           "checked_with": f"tools/try_seeded.sh seeded/{id}-{sfx}/patch.diff {','.join(det)}", "detected_by_quick_check": det, "history": note, "demo": f"demo_{id}.py"},
          open(f'seeded/{id}-{sfx}/meta.json', 'w'), indent=1)
