#!/venv/bin/python
"""Stub-conformance self-test: the analytic backends stand in for kawin.thermo objects, so every call the precipitation model makes
must come back with the same structure (type, number of results, array rank/shape, named fields, sentinel conventions) from the stub
as from the real object.  Compared call by call on Al-Zr (binary) and Ni-Cr-Al (ternary); values are not compared.
usage: tools/selftest_stub_conformance.py"""
import sys, os
sys.path.insert(0, os.path.join(os.path.dirname(os.path.abspath(__file__)), '..'))
import numpy as np
from ksim import stubs
from ksim import precipworld as W


def shape_of(v):
    if v is None:
        return 'None'
    if hasattr(v, '_fields'):
        return type(v).__name__ + '(' + ', '.join(f'{f}:{shape_of(getattr(v, f))}' for f in v._fields) + ')'
    if isinstance(v, tuple):
        return '(' + ', '.join(shape_of(e) for e in v) + ')'
    a = np.asarray(v)
    return f'nd{a.ndim}{tuple(a.shape)}'


bad = 0


def compare(name, real_call, stub_call):
    global bad
    r, s = shape_of(real_call()), shape_of(stub_call())
    ok = r == s
    print(('ok   ' if ok else 'DIFF ') + f'{name}: real {r}' + ('' if ok else f' | stub {s}'))
    if not ok:
        bad += 1


# ---- binary
real = W.real_backend('real_alzr')
stub = stubs.StubBinary({'AL3ZR': {'xb': [0.25], 'xeq': [2e-4], 'dH': 40000.0}}) if False else None
cfg = W.gen_stub_config(__import__('random').Random(3), nel=1, nphase=1)
stub = W.make_backend(cfg)
ph_r, ph_s = 'AL3ZR', cfg['phases'][0]
T = 700.0
for label, x in (('scalar x', 4e-3), ('array x', np.array([4e-3, 2e-3, 1e-3]))):
    Tt = T if np.ndim(x) == 0 else np.array([T, T, T])
    compare(f'binary getDrivingForce {label}', lambda: real.getDrivingForce(x, Tt, precPhase=ph_r), lambda: stub.getDrivingForce(x * 5, Tt, precPhase=ph_s))
compare('binary getDrivingForce undersaturated', lambda: real.getDrivingForce(1e-7, T, precPhase=ph_r), lambda: stub.getDrivingForce(1e-9, T, precPhase=ph_s))
compare('binary getInterfacialComposition scalar g', lambda: real.getInterfacialComposition(T, 0.0, precPhase=ph_r), lambda: stub.getInterfacialComposition(T, 0.0, precPhase=ph_s))
g = np.array([0.0, 100.0, 1000.0])
compare('binary getInterfacialComposition array g', lambda: real.getInterfacialComposition(T, g.copy(), precPhase=ph_r), lambda: stub.getInterfacialComposition(T, g.copy(), precPhase=ph_s))
compare('binary getInterfacialComposition huge g (unstable sentinel)', lambda: real.getInterfacialComposition(T, np.array([0.0, 5e5]), precPhase=ph_r), lambda: stub.getInterfacialComposition(T, np.array([0.0, 5e6]), precPhase=ph_s))
rs = real.getInterfacialComposition(T, np.array([0.0, 5e5]), precPhase=ph_r); ss = stub.getInterfacialComposition(T, np.array([0.0, 5e6]), precPhase=ph_s)
print(f'     sentinel values: real {np.asarray(rs[0])[-1]}, {np.asarray(rs[1])[-1]} | stub {np.asarray(ss[0])[-1]}, {np.asarray(ss[1])[-1]}')
if not (np.asarray(rs[0])[-1] == -1 and np.asarray(ss[0])[-1] == -1):
    bad += 1; print('DIFF sentinel convention')
compare('binary getInterdiffusivity scalar', lambda: real.getInterdiffusivity(4e-3, T), lambda: stub.getInterdiffusivity(4e-3, T))
compare('binary getInterdiffusivity array', lambda: real.getInterdiffusivity(np.array([4e-3, 2e-3]), np.array([T, T])), lambda: stub.getInterdiffusivity(np.array([4e-3, 2e-3]), np.array([T, T])))

# ---- ternary
real = W.real_backend('real_nicral')
cfg = W.gen_stub_config(__import__('random').Random(4), nel=2, nphase=1)
stub = W.make_backend(cfg)
ph_r, ph_s = 'FCC_L12', cfg['phases'][0]
xr = np.array([0.10, 0.085]); xs_ = np.array(cfg['x0'], dtype=float)
Tr, Ts = 1073.0, cfg['T']['T']
compare('ternary getDrivingForce single', lambda: real.getDrivingForce(xr, Tr, precPhase=ph_r), lambda: stub.getDrivingForce(xs_, Ts, precPhase=ph_s))
compare('ternary getDrivingForce batch', lambda: real.getDrivingForce(np.array([xr, xr * 0.9]), np.array([Tr, Tr]), precPhase=ph_r), lambda: stub.getDrivingForce(np.array([xs_, xs_ * 0.9]), np.array([Ts, Ts]), precPhase=ph_s))
dr, cr = real.getDrivingForce(xr, Tr, precPhase=ph_r); ds_, cs = stub.getDrivingForce(xs_, Ts, precPhase=ph_s)
compare('ternary curvatureFactor', lambda: real.curvatureFactor(xr, Tr, precPhase=ph_r, searchDir=np.array(cr)), lambda: stub.curvatureFactor(xs_, Ts, precPhase=ph_s, searchDir=np.array(cs)))
R = np.linspace(5e-10, 5e-9, 7); gE = 2 * 0.02 * 7e-6 / R
compare('ternary getGrowthAndInterfacialComposition array R', lambda: real.getGrowthAndInterfacialComposition(xr, Tr, float(dr), R, gE.copy(), precPhase=ph_r, searchDir=np.array(cr)),
        lambda: stub.getGrowthAndInterfacialComposition(xs_, Ts, float(ds_), R, gE.copy(), precPhase=ph_s, searchDir=np.array(cs)))
compare('ternary impingementFactor', lambda: real.impingementFactor(xr, Tr, precPhase=ph_r, searchDir=np.array(cr)), lambda: stub.impingementFactor(xs_, Ts, precPhase=ph_s, searchDir=np.array(cs)))
compare('ternary getInterdiffusivity', lambda: real.getInterdiffusivity(xr, Tr), lambda: stub.getInterdiffusivity(xs_, Ts))
compare('ternary getDrivingForce undersaturated', lambda: real.getDrivingForce(np.array([0.02, 0.02]), Tr, precPhase=ph_r), lambda: stub.getDrivingForce(xs_ * 1e-3, Ts, precPhase=ph_s))
print('stub conformance:', 'FAILED' if bad else 'ok')
sys.exit(1 if bad else 0)
