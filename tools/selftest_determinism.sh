#!/bin/bash
# Determinism self-test: for every check, the same seed is executed in three fresh interpreters
#   A: 16 workers, PYTHONHASHSEED=0     B: 5 workers, PYTHONHASHSEED=0     C: 16 workers, PYTHONHASHSEED=12345
# A and B must give bit-identical per-run digests (event log + counters + failures).  C must give identical
# digests for worlds that do not involve pycalphad and identical verdicts / failing checks for all.
# usage: tools/selftest_determinism.sh [runs-per-check] [ids...]
cd "$(dirname "$0")/.."
runs=${1:-96}; shift
ids=${@:-C01 C02 C03 C04 C05 C06 C07 C08 C09 C11 C12 C13 C14 C17 C18 C19 C20}
tmp=$(mktemp -d)
bad=0
for id in $ids; do
  VERIF_NPROC=16 ./check $id --tier quick --runs $runs --no-evidence --no-shrink --digests $tmp/a.json >/dev/null 2>&1
  VERIF_NPROC=5  ./check $id --tier quick --runs $runs --no-evidence --no-shrink --digests $tmp/b.json >/dev/null 2>&1
  KSIM_HASHSEED=12345 VERIF_NPROC=16 ./check $id --tier quick --runs $runs --no-evidence --no-shrink --digests $tmp/c.json >/dev/null 2>&1
  python3 - $id $tmp <<'PY'
import json, sys
id, tmp = sys.argv[1], sys.argv[2]
a, b, c = (json.load(open(f'{tmp}/{n}.json')) for n in 'abc')
same_ab = sum(a[k] == b[k] for k in a)
same_ac = sum(a[k] == c[k] for k in a)
verdict_ac = sum(a[k][1:] == c[k][1:] for k in a)
print(f'{id}: runs={len(a)} identical(A,B)={same_ab} identical(A,C other hash seed)={same_ac} same verdict(A,C)={verdict_ac}')
sys.exit(0 if same_ab == len(a) and verdict_ac == len(a) else 1)
PY
  [ $? -ne 0 ] && bad=1
done
rm -rf $tmp
exit $bad
