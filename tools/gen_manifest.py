#!/usr/bin/env python3
"""Regenerates /verif/MANIFEST.json from the table below and validates it (if jsonschema is present)."""
import json, os, sys

VERIF = os.path.dirname(os.path.dirname(os.path.abspath(__file__)))
BASELINE_CMD = "cd /repo && /venv/bin/python -m pytest -ra -q -p no:cacheprovider --timeout=900 --continue-on-collection-errors"

# id -> (level, quick timeout s, thorough timeout s, technique, level text, level note, design ref)
CHECKS = {
 'C01': ('exploration', 1200, 7200,
         'deterministic simulation: real KWN model under a seeded configuration/solve-call schedule with a per-step observer and read-only taps; reference mass balance + freshness of the precipitate-composition table from the backend proxy call log',
         'Every recorded step of every run is compared with a scalar reference balance built from the tapped inputs, the recorded row must be that evaluation, the composition table must be the latest backend answer for the current class boundaries, and the identity is re-evaluated on the live distribution with an explicitly explained slack. Configurations include composition floors inside the visited range, all step-size constraints, aspect ratio 1 / radius-dependent aspect ratios and predecessor / sibling models in the same process.',
         'Fault-free runs only; clamp-active and fraction>=1 steps exempt (counted); reference uses kawin\'s own Avogadro constant for unit conversion; stub-backend runs say nothing about kawin.thermo (evidence counts real vs stub).',
         'DESIGN.md 4/C01'),
 'C02': ('exploration', 1200, 7200,
         'deterministic simulation: real KWN model with PSD recording on under seeded schedules; reported aggregates vs scalar moments of the step\'s distribution and of the recorded PSD row; per-step number budget from tapped stage nucleation rates',
         'Every recorded step: density / mean radius / volume fraction vs reference moments, recorded PSD row vs the distribution with sub-1 classes removed, number budget N_new - N_start <= J_max dt, measured re-mesh contribution.',
         'Known finding: a re-mesh changes the number density (third-moment rescaling). Negative classes produced by an over-long explicit step count as "less than one particle" removals. Missing PSD rows on the documented phase-reset path are informational.',
         'DESIGN.md 4/C02'),
 'C03': ('fault_enumeration', 1500, 7200,
         'deterministic simulation with fault injection: real KWN model behind a fault-injecting thermodynamics proxy; single-fault position enumeration per workload + seeded fault sequences + fault-free configuration swarm; well-formedness invariants every step',
         'Every accepted step and every call history of every run is checked for alignment, finiteness, ranges, monotone time and exact end time; for fixed workloads every backend-call index receives a single "no result" fault and a burst of three; seeded sequences add mixed rates and bursts, real-backend runs exercise kawin.thermo\'s own fallback. Shapes include aspect ratio exactly 1 and radius-dependent aspect ratios.',
         'Faults are injected only after model.setup() (transient failures of a running model); binary "unstable" sentinels and driving-force failures are probed informationally only; conservation is not asserted under faults. Known findings: pycalphad ZeroDivisionError escaping local_equilibrium; total fraction > 1 when one phase is clamped at 1.',
         'DESIGN.md 4/C03'),
 'C04': ('exploration', 1200, 7200,
         'deterministic simulation: real diffusion models under seeded profile/mesh/boundary-condition/temperature/solve-call schedules with a flux tap, an iterator wrapper and a pre-clip state tap; flux-balance ledger per step',
         'Every step of every run: mesh-sum change vs dt * sum_s w_s (J_left - J_right)/dz from the tapped boundary fluxes, boundary flux per condition type, fixed-composition nodes hold the prescribed value and stay bitwise constant across steps and solve calls, a quarter of the synthetic runs preceded by another model with the same element names (cross-instance history), bounds, call seams, recorded history; cumulative drift of closed systems over all calls.',
         'Clip steps exempt (counted); runs ended by the model\'s own validation or a backend exception are checked up to that point (crash freedom is not C04). Synthetic-provider runs say nothing about kawin.thermo.',
         'DESIGN.md 4/C04'),
 'C05': ('exploration', 900, 3600,
         'deterministic simulation: seeded adversarial plug-in models (dt proposals, stop requests, state layouts, coupler mixes) driving the real DESolver; contract oracle on the accepted-time history',
         'Seeded search over adversarial model behaviour and solve-call schedules; every accepted time, step size, stop and callback state structure is checked against the stated contract. Sampling, not enumeration. Couplers include sub-models with their own clock (solved before coupling) and a real precipitation + diffusion pair.',
         'Assumes minDtFrac*dt_total >= 8 ulp(t0+dt_total); step bounds compared with 4 ulp tolerance; plug-in returns derivatives in its own structure. Custom iterators that return their own dt are out of scope.',
         'DESIGN.md 4/C05'),
 'C06': ('exploration', 600, 3600,
         'deterministic simulation: closed-form ODE probe models stepped through the real solver under seeded step schedules; stage-time history + measured convergence order',
         'Stage-callback clock checked at every step of every run; convergence order measured by successive halving for autonomous and time-dependent problems, uniform and non-uniform schedules; iterator input immutability checked by a recording wrapper. Problems are posed on time scales 1, 20 and 300 (steps above one time unit) and 30% reuse a model object that was solved with the other integrator before.',
         'Order is an empirical slope on 7 ODE families (one-sided: at least order 0.6 / 3.0 decay between halvings); no fault dimension exists for this property and none is pretended.',
         'DESIGN.md 4/C06'),
 'C07': ('exploration', 600, 3600,
         'deterministic simulation: operation-history state machine over the real PopulationBalanceModel; transport step compared face by face with a scalar upwind reference',
         'Seeded search over operation histories and step inputs (growth fields, nucleation terms, step factors, Euler/RK4 calling pattern); every transport step checked against a scalar reference (upwind faces, sum rule, nucleation class, per-face limiter, step limit, non-negativity of limit-obeying classes). Rate functions are also called with trial distributions that are not the stored one.',
         'Admissible PBM configurations only; corrected face fluxes read from the anchored attribute _netFlux; inputs are a seeded sample, not a sweep. Known finding: nucleus above the grid is clamped into the last class.',
         'DESIGN.md 4/C07'),
 'C08': ('exploration', 600, 3600,
         'deterministic simulation: operation-history state machine (extend, re-mesh, adjust, update, backup/revert, reset, load, moment queries) over the real PopulationBalanceModel with invariants after every op',
         'Seeded search over op sequences of up to 25 operations with grid invariants after every op and op-specific reference checks (extension leaves classes untouched, third moment preserved on covering re-mesh, maxBins respected, reset/revert restore, moment functions depend only on the supplied distribution).',
         'Admissible PBM configurations only; revert only after a backup; PSD recording is not part of C08. Known finding: coarsening re-mesh can drop a sparse distribution entirely.',
         'DESIGN.md 4/C08'),
 'C09': ('exploration', 1500, 7200,
         'deterministic simulation of query histories on real thermodynamics objects with cache drops as faults: warm object vs fresh twin per query, immediate repetition, batched vs single, argument immutability; HashTable op machine against an exact-integer reference table; diffusion runs with the cache off/on in situ',
         'Every query of every seeded history (Al-Zr binary, Ni-Cr-Al ternary, Fe-Cr-Ni per-phase diffusivities; four driving-force methods; interfacial composition, curvature, growth, impingement, diffusivities; T jumps up to 300 K, jumps across the solvus, removeCache either way, interleaved clearCache) is compared with a cold twin; HashTable soundness and switch-off checked op by op and in running diffusion models.',
         'Real databases only (the stub backend is irrelevant here). Tolerance 1e-7 relative (energies 1e-6 + 1e-4 J/mol, curvature-method driving force 3e-5, diffusivities 1e-6 of the largest entry). Known finding: warm start on the ordered FCC_L12 precipitate after a large jump.',
         'DESIGN.md 4/C09'),
 'C11': ('exploration', 1500, 7200,
         'differential deterministic simulation: worlds built from one record that differ only in the order of the phase list (all permutations) or of the solute elements, stepped and compared step by step with a local-jump rule',
         'Phase order: every permutation of 2-3 phases of stub ternary worlds (real Al-Mg-Si in the thorough tier) compared over the whole history (time grid and permuted per-phase histories). Element order: six query kinds of the real Ni-Cr-Al database at seeded points compared as permuted images; paired diffusion runs with permuted element lists (synthetic, real Ni-Cr-Al, real two-phase Fe-Cr-Ni homogenization); the homogenization mobility provider on Fe-Cr-Ni in both orders with a composition cache per order.',
         'Equality judged locally (d_n <= 1e-6 and no jump from < 1e-12 to > 1e-9) because summation order legitimately changes rounding; element-order comparisons use cold caches.',
         'DESIGN.md 4/C11'),
 'C13': ('exploration', 1500, 7200,
         'deterministic simulation: non-isothermal precipitation worlds executed as pairs (constructor vs setter, break points vs function) and compared bitwise; recorded temperature vs independent schedule evaluation; tap on the binary lookup-table builder for the staleness bound',
         'Every step: recorded temperature equals the schedule; every run: the paired equivalent specification gives a bitwise identical history and the same isothermal flag; binary runs: table staleness <= maxTempChange after every step and recorded solvus inside the bracket, heating and cooling, fast and slow ramps; reschedule histories (schedule of a live model replaced between solve calls: temperature, isothermal flag and the incubation formula evaluated follow the schedule in force); sibling histories (another model configured before the first solve).',
         'Schedules are seeded samples (2-5 break points); real-backend pairs start both variants from a cleared thermodynamics cache (C09 effects excluded).',
         'DESIGN.md 4/C13'),
 'C12': ('exploration', 1200, 7200,
         'deterministic simulation: real KWN model under seeded schedules with a growth-sign monitor at every accepted step (growth, class boundaries and critical radius read at the same instant); static thermodynamic relations evaluated at states a real Al-Zr trajectory visits',
         'In-run clause checked at every step of every run (stub and real backends, binary and multicomponent, all site types/shapes); static clauses (dG(x_alpha(g)) = g, monotonicity, sentinel monotonicity, sign change at the solvus, agreement of the four methods) at visited states of real Al-Zr runs and at seeded states of Al-Cr / AL13CR2 (formula unit != mole of atoms). Runs with boundary sites include the reconfigure history (same model reset, another energy, solved again).',
         'Static clauses are input sampling along trajectories, not a sweep. Band around R* excluded (stub 1e-6; real 2% + offset). Known finding: curvature driving-force method at large supersaturation.',
         'DESIGN.md 4/C12'),
 'C14': ('exploration', 1200, 7200,
         'deterministic simulation: setter-history state machine on nucleation parameter objects compared with fresh twins; precipitation worlds with a tap on _calcNucleationSites and per-step checks; Clemm-Fisher / CNT reference formulas as oracles at visited states',
         'Cache coherence of geometric factors after any setter order (bitwise vs fresh object), site budget in runs (non-negative, bounded, consumed by occupancy), per-step sanity of Rcrit/Gcrit/impingement/rate, reference formulas and identities at every visited state. Description functions are read with arrays and scalars; multi-phase runs with every phase on one site type carry the exact site reference.',
         'k values and driving forces are those visited (sample, not sweep); N0 is configuration; the dislocation site type is exempt from N0-based clauses (kawin resolves it through the bulk branch: recorded as an observation in DESIGN.md). Known finding: negative barrier when R* is clamped on grain-boundary sites.',
         'DESIGN.md 4/C14'),
 'C17': ('exploration', 1200, 7200,
         'deterministic simulation of evaluation histories of computeHomogenizationFunction on the real two-phase Fe-Cr-Ni database with a shared hash table (order, repeats, cache on/off/cleared, rule and post-process mode changing between evaluations); by-name reference post-processing; classical bound formulas on synthetic sets',
         'Every evaluation of every history is compared with a by-phase-name reference applied to a cache-less fresh evaluation, repeated for idempotence, and the cached per-phase arrays are compared before/after; synthetic fully-defined sets check min/max, W_low<=HS_low<=HS_up<=W_up, permutation invariance, single-phase limit, labyrinth clauses and the rule formulas. Exclude lists with unstable / unknown names and a BCC-only mobility variant are part of the histories.',
         'Bounds asserted for fully defined sets only (1e-6 relative, up to six decades); predefined(name) compared only where the named phase is stable; FCC-only mobility produced by removing the BCC callable.',
         'DESIGN.md 4/C17'),
 'C18': ('exploration', 1200, 7200,
         'deterministic simulation of two coupled clocks: host precipitation model with StrengthModel and GrainGrowthModel (nested solver run per host step) attached; alignment/clock invariants after every host step; stand-alone grain-growth histories with taps on normalisation and drag; strength formulas as oracles at visited and generated points',
         'Coupled: one strength entry per host step and grain clock == host clock after every host step over 1-4 solve calls and both iterators. Grain growth: volume 1 after every step, bounded pre-normalisation drift, monotone mean size without pinning, drag never reverses/accelerates, frozen structure above the freezing level. Strength: non-negativity incl. r < ri and zeros, min rule, total >= parts and monotone, edge/screw limits. Superposition exponents, alpha 0.5-3 with the documented drag law, and reset-and-solve-again histories of the grain model are included.',
         'Strength formulas and drag levels are sampled, not swept; host model uses the analytic backend.',
         'DESIGN.md 4/C18'),
 'C19': ('exploration', 1500, 7200,
         'deterministic simulation: precipitation worlds with stopping conditions whose thresholds are placed from a pilot run; reference latch/stop model walked over the recorded history; TTP calculator with an in-process fake pool executing in a seeded permutation',
         'Every run: stop step, latches, interpolated times (within the crossing step), -1 for unmet conditions, no un-latching on a further solve; TTP: every table entry equals the reference applied to the run the calculator performed for that temperature, runs start from a reset state, table independent of execution order.',
         'Thresholds come from a pilot of the same record (early/late/never/already met); TTP is compared with its own runs, not with freshly built models (reset() re-creates PBMs with default grids: recorded as an observation).',
         'DESIGN.md 4/C19'),
 'C20': ('fault_enumeration', 1500, 7200,
         'deterministic simulation with crash injection: op histories solve/save/crash/load on precipitation and diffusion models with every save point between solve calls enumerated; surrogate train/save/load round trips on the real databases',
         'For every generated history every point between solve calls (and after the last) is a save point: save, drop all state, fresh model of the same configuration loads, bitwise comparison of all recorded histories, current state, size distributions and recorded PSDs. Surrogates: pass-through of every untrained getter (bitwise), reproduction of training data, JSON round trip. A two-precipitate Al-Mg-Si surrogate world checks every trained phase; an informational probe counts how often a restored model continues bit-identically.',
         'Crash = loss of all in-memory state between solve calls; torn/truncated files are not part of C20. Surrogate checks use the real Al-Zr and Ni-Cr-Al databases with small training grids.',
         'DESIGN.md 4/C20'),
}

NOT_APPLICABLE = {
 'C10': 'Pure functions of (composition, temperature): no clock, history, fault or ordering for a scheduler to vary (the warm-cache state is C09). Deciding it means sweeping an input region, which is property-based testing, not simulation.',
 'C15': 'Pure functions of the aspect ratio; nothing to schedule or fault (argument mutation is a single-call effect, the bisection is a deterministic function of its inputs).',
 'C16': 'Pure tensor algebra and quadrature; the only order-sensitive clause is a two-element permutation of setter calls, i.e. input enumeration rather than a schedule space.',
}

PENDING = {}


def main():
    props = [json.loads(l)['id'] for l in open(os.path.join(VERIF, 'properties.jsonl'))]
    checks = []
    for pid in props:
        if pid not in CHECKS:
            continue
        level, tq, tt, technique, text, note, ref = CHECKS[pid]
        checks.append({
            'property_id': pid,
            'quick_cmd': f'timeout {tq} ./check {pid} --tier quick',
            'thorough_cmd': f'timeout {tt} ./check {pid} --tier thorough',
            'evidence_file': f'/verif/evidence/{pid}.json',
            'replay_cmd_template': f'./check {pid} --replay {{path}}',
            'engine': 'ksim',
            'level_claimed': {'category': level, 'text': text, 'design_ref': ref},
            'level_note': note,
            'technique': technique,
        })
    na = []
    for pid in props:
        if pid in CHECKS:
            continue
        if pid in NOT_APPLICABLE:
            na.append({'property_id': pid, 'reason': NOT_APPLICABLE[pid]})
        else:
            na.append({'property_id': pid, 'reason': PENDING.get(pid, 'check not yet built at this commit (claimed in DESIGN.md; listed here until its check is registered)')})
    man = {
        'version': 1,
        'setup_cmd': 'bash /verif/setup.sh',
        'hooks': {
            'guard': 'KAWIN_VERIF',
            'enable': 'none needed: all instrumentation is attached from /verif through public extension points (setThermodynamics proxy, addCouplingModel observer, solverType callable, instance-level taps); ./check exports KAWIN_VERIF=1 for completeness',
            'baseline_off_cmd': BASELINE_CMD,
            'source_commits': [],
            'add_only': True,
        },
        'engines': [{'name': 'ksim', 'path': '/verif/ksim', 'serves_properties': sorted(CHECKS),
                     'kind_free_text': 'single-process deterministic simulator for kawin: seeded run records, fork-per-run execution, reference-model oracles, ddmin shrinking, JSON replay files'}],
        'checks': checks,
        'not_applicable': na,
        'notes': 'See DESIGN.md. Known findings: known_findings.json. Seeded breakages used to test the checks: seeded/.',
    }
    path = os.path.join(VERIF, 'MANIFEST.json')
    with open(path, 'w') as f:
        json.dump(man, f, indent=1)
    try:
        import jsonschema
        schema = json.load(open('/root/.vp/MANIFEST.schema.json'))
        jsonschema.validate(man, schema)
        print('MANIFEST.json valid;', len(checks), 'checks,', len(na), 'not claimed')
    except ImportError:
        print('MANIFEST.json written (jsonschema not available for validation)')


if __name__ == '__main__':
    main()
