#!/bin/bash
# usage: tools/regress_seeded.sh [tier]   -- runs, for every seeded change, the quick check of the property it breaks; prints DETECTED/MISSED per change (4 at a time)
cd "$(dirname "$0")/.."
tier=${1:-quick}
ls -d seeded/*/ | xargs -P ${REGRESS_PAR:-4} -I{} bash -c 'd={}; id=$(basename $d); p=${id%%-*}; r=$(tools/try_seeded.sh $d/patch.diff $p '"$tier"' 2>&1 | grep -v conda | grep -E "DETECTED|MISSED|NOT APPLY" | cut -c1-160); echo "$id: $r"'
