#!/venv/bin/python
"""Tap-neutrality self-test: the monitors and taps of the precipitation and diffusion worlds must not change the simulated system.
For seeded records of each property that runs a model, the record is executed once through the property's execute() (all taps and
monitors installed) and once bare (same model, same ops, only the step cap attached); the recorded histories must be bit-identical.
usage: tools/selftest_neutrality.py [records-per-property]      (run through ./check's environment: PYTHONHASHSEED=0, 1 BLAS thread)"""
import sys, os, random, copy, importlib
sys.path.insert(0, os.path.join(os.path.dirname(os.path.abspath(__file__)), '..'))
import numpy as np
from ksim import core
from ksim import precipworld as W

N = int(sys.argv[1]) if len(sys.argv) > 1 else 12


def pdigest(m):
    from kawin.precipitation.PrecipitationParameters import PrecipitationData
    D = core.Digest()
    for name in PrecipitationData.ATTRIBUTES:
        D.add(np.ascontiguousarray(np.asarray(getattr(m.pData, name), dtype=float)))
    for pbm in m.PBM:
        D.add(np.ascontiguousarray(np.asarray(pbm.PSD, dtype=float)), np.ascontiguousarray(np.asarray(pbm.PSDbounds, dtype=float)))
    return D.hex()


captured = {}
_orig_run_ops = W.run_ops


def spy_run_ops(model, ops, observer, *a, **kw):
    out = _orig_run_ops(model, ops, observer, *a, **kw)
    captured['digest'] = pdigest(model)
    captured['cap'] = observer.step_cap
    return out


bad = 0
for pid in ('c01', 'c02', 'c03', 'c12', 'c14'):
    mod = importlib.import_module('ksim.props.' + pid)
    recs = []
    i = 0
    while len(recs) < N and i < 4000:
        r = mod.generate(random.Random(core.derive_seed(7, mod.ID, 'quick', i)), 'quick', i)
        i += 1
        if 'cfg' not in r or 'ops' not in r or not str(r['cfg'].get('backend', '')).startswith('stub'):
            continue
        if r.get('faults') or r.get('kind') not in (None, 'run', 'faultfree'):
            continue
        if any(o.get('op', 'solve') != 'solve' for o in r['ops']):
            continue
        recs.append(r)
    if hasattr(mod, 'prepare'):
        mod.prepare('quick', recs)
    same = 0
    for r in recs:
        captured.clear()
        W.run_ops = spy_run_ops
        for name in dir(mod):
            pass
        try:
            mod.execute(copy.deepcopy(r))
        except core.Inconclusive:
            pass
        finally:
            W.run_ops = _orig_run_ops
        if 'digest' not in captured:
            continue
        with_taps = captured['digest']
        m, _ = W.build_model(copy.deepcopy(r['cfg']), keep_log=False)
        if r['cfg'].get('record_psd'):
            pass
        obs = W.Observer([], captured['cap'])
        m.addCouplingModel(obs)
        _orig_run_ops(m, r['ops'], obs, F=None)
        bare = pdigest(m)
        if bare == with_taps:
            same += 1
        else:
            bad += 1
            print(f'  {mod.ID}: record differs with and without taps: steps {m.pData.n}')
    print(f'{mod.ID}: {len(recs)} records, identical histories with and without taps/monitors: {same}')
sys.exit(1 if bad else 0)
