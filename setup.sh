#!/bin/bash
# Offline setup: nothing to build. Sanity-check the interpreter and the editable install, create output dirs.
set -e
cd "$(dirname "${BASH_SOURCE[0]}")"
mkdir -p evidence replays
chmod +x check
/venv/bin/python - <<'PY' 2>/dev/null
import kawin, numpy, scipy, pycalphad, os
assert os.path.realpath(os.path.dirname(kawin.__file__)).startswith('/repo'), kawin.__file__
print('kawin from', os.path.dirname(kawin.__file__), '| numpy', numpy.__version__, '| pycalphad', pycalphad.__version__)
PY
echo setup ok
